// Package vs is the run-time half of engine E1: a cooperative scheduler with a virtual clock, a
// happens-before race detector, channel/mutex shims and (net.go) a simulated IP network. It exists
// only in the `go build -overlay` of uhppote-core (as github.com/uhppoted/uhppote-core/verifshim/vs);
// the instrumented uhppote package calls into it instead of net/time/sync/syscall and the `go`,
// channel and close constructs.
//
// Exactly one thread (goroutine) runs at a time; every visible operation first declares itself at
// a scheduling point. All nondeterminism is resolved through Exec.choose, which replays a recorded
// prefix and then takes option 0, so an execution is a pure function of its choice sequence.
package vs

import (
	"fmt"
	"reflect"
	"sort"
	"strings"
	"sync"
	"sync/atomic"
	"time"
)

// ---------------------------------------------------------------------------------------------
// execution state

type VC []int32

func (v VC) join(o VC) VC {
	for len(v) < len(o) {
		v = append(v, 0)
	}
	for i, x := range o {
		if x > v[i] {
			v[i] = x
		}
	}
	return v
}

func (v VC) copy() VC { return append(VC{}, v...) }

func (v VC) get(i int) int32 {
	if i < len(v) {
		return v[i]
	}
	return 0
}

type thread struct {
	id      int
	name    string
	wake    chan struct{}
	done    bool
	started bool
	yielded bool
	// pending operation (valid while the thread is parked at a scheduling point)
	op       string
	enabled  func() bool
	deadline int64 // virtual ns; -1 = none
	timedOut bool  // set by the scheduler when the thread was released because its deadline passed
	vc       VC
	hist     uint64 // rolling hash of (op, result) pairs — part of the state key
}

// PointRec describes one choice point of an execution.
type PointRec struct {
	Kind    byte // 't' thread choice, 'e' environment choice
	N       int  // number of options
	Chosen  int
	Preempt bool   // choosing an option > 0 here switches away from a runnable thread
	Sig     uint32 // signature for the determinism guard
	Key     uint64 // state key at this point (0 if not computed)
}

type timerEv struct {
	at  int64
	seq int
	fn  func()
}

type Exec struct {
	threads []*thread
	cur     *thread
	clock   int64
	prefix  []int
	sigs    []uint32
	Points  []PointRec
	steps   int
	horizon int

	aborted  atomic.Bool
	Abort    string // "", "DEADLOCK", "LIVELOCK", "PANIC", "NONDETERMINISM"
	AbortMsg string
	wg       sync.WaitGroup

	timers   []timerEv
	timerSeq int

	mutexes map[uintptr]*mutexState
	chans   map[uintptr]*chanState
	vars    map[uintptr]*varState
	// pinned keeps every object whose address keys shim state (mutexes, channels, stamped
	// variables, atomics ...) reachable until the execution ends: otherwise the garbage collector
	// may free it mid-execution and hand the same address to a new object, which would then
	// inherit stale state - a timing-dependent (GC-dependent) source of nondeterminism.
	pinned  []any
	Races   []string
	raceSet map[string]bool

	Trace    []string // op trace (thread:op) when tracing is on
	tracing  bool
	Net      *Network
	Log      []string // harness-level observations, in order
	lastProg atomic.Int64
	keying   bool
	timeSkip bool
}

var cur *Exec // the execution in progress (one per process)

const epochUnix = 1_700_000_000 // virtual time 0 = 2023-11-14T22:13:20Z

type abortSentinel struct{}

// ---------------------------------------------------------------------------------------------
// scheduling core

func (e *Exec) trace(format string, a ...any) {
	if e.tracing {
		e.Trace = append(e.Trace, fmt.Sprintf("t%d@%d: ", e.cur.id, e.clock)+fmt.Sprintf(format, a...))
	}
}

func hash32(s string) uint32 {
	h := uint32(2166136261)
	for i := 0; i < len(s); i++ {
		h ^= uint32(s[i])
		h *= 16777619
	}
	return h
}

// choose resolves one nondeterministic choice among n options.
func (e *Exec) choose(kind byte, n int, preempt bool, sig uint32) int {
	i := len(e.Points)
	c := 0
	if i < len(e.prefix) {
		c = e.prefix[i]
		if i < len(e.sigs) && e.sigs[i] != sig^uint32(n)<<24 {
			e.fail("NONDETERMINISM", fmt.Sprintf("replay diverged at point %d: signature %08x, recorded %08x", i, sig^uint32(n)<<24, e.sigs[i]))
		}
		if c >= n {
			e.fail("NONDETERMINISM", fmt.Sprintf("replay diverged at point %d: choice %d of %d options", i, c, n))
		}
	}
	var key uint64
	if e.keying && kind == 't' {
		key = e.stateKey()
	}
	e.Points = append(e.Points, PointRec{Kind: kind, N: n, Chosen: c, Preempt: preempt, Sig: sig ^ uint32(n)<<24, Key: key})
	return c
}

func (e *Exec) fail(kind, msg string) {
	if e.aborted.Load() {
		panic(abortSentinel{})
	}
	e.Abort, e.AbortMsg = kind, msg
	e.abortAll()
	panic(abortSentinel{})
}

// abortAll releases every parked thread; each unwinds by panicking with abortSentinel. Shim
// operations become no-ops once aborted is set, so deferred Close/Unlock calls cannot block.
func (e *Exec) abortAll() {
	if e.aborted.Swap(true) {
		return
	}
	for _, t := range e.threads {
		if t != e.cur && !t.done {
			select {
			case t.wake <- struct{}{}:
			default:
			}
		}
	}
}

func (t *thread) isEnabled(e *Exec) bool {
	if t.done {
		return false
	}
	if t.enabled == nil || t.enabled() {
		return true
	}
	return t.deadline >= 0 && t.deadline <= e.clock
}

// fireTimers runs every environment timer that is due at the current clock.
func (e *Exec) fireTimers() {
	for {
		idx := -1
		for i, tm := range e.timers {
			if tm.at <= e.clock && (idx < 0 || tm.at < e.timers[idx].at || (tm.at == e.timers[idx].at && tm.seq < e.timers[idx].seq)) {
				idx = i
			}
		}
		if idx < 0 {
			return
		}
		fn := e.timers[idx].fn
		e.timers = append(e.timers[:idx], e.timers[idx+1:]...)
		fn()
	}
}

func (e *Exec) nextTime() int64 {
	next := int64(-1)
	for _, t := range e.threads {
		if !t.done && t.deadline >= 0 && t.deadline > e.clock && (next < 0 || t.deadline < next) {
			next = t.deadline
		}
	}
	for _, tm := range e.timers {
		if tm.at > e.clock && (next < 0 || tm.at < next) {
			next = tm.at
		}
	}
	return next
}

// pick selects the next thread to run (the caller is parked or finished).
func (e *Exec) pick() *thread {
	advanced := false
	for {
		e.fireTimers()
		var opts []*thread
		// The current thread keeps the processor (and switching away from it is a preemption) only if
		// it can go on right away. Once virtual time had to pass because nobody could run, nobody is
		// "running": whoever becomes runnable then is chosen freely, in canonical order.
		curEnabled := !advanced && e.cur != nil && !e.cur.done && e.cur.isEnabled(e)
		if curEnabled && !e.cur.yielded {
			opts = append(opts, e.cur)
		}
		var yielded []*thread
		for _, t := range e.threads {
			if t == e.cur && curEnabled && !e.cur.yielded {
				continue
			}
			if t.isEnabled(e) {
				if t.yielded {
					yielded = append(yielded, t)
				} else {
					opts = append(opts, t)
				}
			}
		}
		// yielded threads run only when nothing else can (fair scheduling of spin loops)
		if len(opts) == 0 {
			opts = yielded
		}
		if len(opts) == 0 {
			next := e.nextTime()
			if next < 0 {
				alive := []string{}
				for _, t := range e.threads {
					if !t.done {
						alive = append(alive, fmt.Sprintf("t%d(%s) blocked at %s", t.id, t.name, t.op))
					}
				}
				if len(alive) == 0 {
					return nil
				}
				e.Abort, e.AbortMsg = "DEADLOCK", strings.Join(alive, "; ")
				return nil
			}
			e.clock = next
			advanced = true
			continue
		}
		preempt := curEnabled && !e.cur.yielded
		sig := uint32(0)
		for _, t := range opts {
			sig = sig*31 + uint32(t.id)*7 + hash32(t.op)
		}
		n := len(opts)
		skip := e.timeSkip && preempt && e.nextTime() >= 0
		if skip {
			n++
		}
		c := 0
		if n > 1 {
			c = e.choose('t', n, preempt, sig)
		}
		if skip && c == n-1 {
			// deviation: let virtual time pass although threads are runnable
			e.clock = e.nextTime()
			continue
		}
		return opts[c]
	}
}

// handoff parks the current thread and runs the chosen one; returns when the current thread is
// scheduled again.
func (e *Exec) handoff() {
	me := e.cur
	e.steps++
	if e.steps > e.horizon {
		e.Abort, e.AbortMsg = "LIVELOCK", fmt.Sprintf("step horizon %d reached; t%d at %s", e.horizon, me.id, me.op)
		e.abortAll()
		panic(abortSentinel{})
	}
	next := e.pick()
	if next == nil {
		// deadlock (or everything finished while we are parked: impossible, we are alive)
		if e.Abort == "" {
			e.Abort, e.AbortMsg = "DEADLOCK", "scheduler found no thread"
		}
		e.abortAll()
		panic(abortSentinel{})
	}
	if next == me {
		me.yielded = false
		return
	}
	e.cur = next
	next.yielded = false
	if !next.started {
		next.started = true
	}
	next.wake <- struct{}{}
	<-me.wake
	if e.aborted.Load() {
		panic(abortSentinel{})
	}
}

// point declares a visible operation of the current thread and returns once it may proceed.
// timedOut reports that the thread was released because its deadline passed (not enabled).
func (e *Exec) point(op string, enabled func() bool, deadline int64) (timedOut bool) {
	if e.aborted.Load() {
		panic(abortSentinel{})
	}
	me := e.cur
	me.op, me.enabled, me.deadline = op, enabled, deadline
	e.lastProg.Store(time.Now().UnixNano())
	e.handoff()
	timedOut = enabled != nil && !enabled()
	me.enabled, me.deadline = nil, -1
	e.trace("%s%s", op, map[bool]string{true: " [timeout]", false: ""}[timedOut])
	return timedOut
}

func (e *Exec) note(t *thread, s string) {
	t.hist = t.hist*1099511628211 + uint64(hash32(s))
}

// exit is called when a thread's function returns.
func (e *Exec) exit(t *thread) {
	t.done = true
	t.vc[t.id]++
	if e.aborted.Load() {
		return
	}
	e.cur = t
	next := e.pick()
	if next == nil {
		if e.Abort != "" {
			e.abortAll()
		}
		return
	}
	e.cur = next
	next.started = true
	next.wake <- struct{}{}
}

func (e *Exec) spawn(name string, fn func()) *thread {
	t := &thread{id: len(e.threads), name: name, wake: make(chan struct{}, 1), deadline: -1, op: "start"}
	if e.cur != nil {
		t.vc = e.cur.vc.copy()
		e.cur.vc[e.cur.id]++
	}
	for len(t.vc) <= t.id {
		t.vc = append(t.vc, 0)
	}
	t.vc[t.id] = 1
	e.threads = append(e.threads, t)
	e.wg.Add(1)
	go func() {
		defer e.wg.Done()
		<-t.wake
		panicked := true
		func() {
			defer func() {
				if r := recover(); r != nil {
					if _, ok := r.(abortSentinel); !ok {
						if !e.aborted.Load() {
							e.cur = t
							e.Abort, e.AbortMsg = "PANIC", fmt.Sprintf("t%d(%s): %v", t.id, t.name, r)
							e.abortAll()
						}
					}
				}
			}()
			if e.aborted.Load() {
				panic(abortSentinel{})
			}
			fn()
			panicked = false
		}()
		func() {
			defer func() { recover() }() // abortSentinel raised while scheduling the next thread
			if panicked {
				t.done = true
				return
			}
			e.exit(t)
		}()
	}()
	return t
}

// ---------------------------------------------------------------------------------------------
// API used by instrumented code and harnesses

// Go replaces the `go` statement.
func Go(fn func()) {
	e := cur
	if e.aborted.Load() {
		return
	}
	e.spawn("go", fn)
}

// GoNamed is Go with a thread name for diagnostics (harness threads).
func GoNamed(name string, fn func()) {
	e := cur
	if e.aborted.Load() {
		return
	}
	e.spawn(name, fn)
}

// Choose is an environment choice among n options (free: no deviation cost).
func Choose(n int, what string) int {
	e := cur
	if n <= 1 || e.aborted.Load() {
		return 0
	}
	return e.choose('e', n, false, hash32(what))
}

// Yield is a plain scheduling point (harness use).
func Yield(op string) {
	cur.point(op, nil, -1)
}

// Logf appends a harness observation to the execution log.
func Logf(format string, a ...any) {
	e := cur
	e.Log = append(e.Log, fmt.Sprintf(format, a...))
}

// NowNs returns the virtual clock in ns since the start of the execution.
func NowNs() int64 { return cur.clock }

// Now replaces time.Now.
func Now() time.Time {
	if cur == nil {
		return time.Now() // outside an execution (a harness built with the overlay, running ordinary code)
	}
	return time.Unix(epochUnix, 0).Add(time.Duration(cur.clock)) // in time.Local, as time.Now() is
}

func toVirtual(t time.Time) int64 {
	if t.IsZero() {
		return -1
	}
	if v := int64(t.Sub(time.Unix(epochUnix, 0))); v > 0 {
		return v
	}
	return 0 // a deadline at or before the start of the execution has passed already (-1 is "none")
}

// Sleep replaces time.Sleep: blocks until the virtual clock reaches now+d.
func Sleep(d time.Duration) {
	e := cur
	if e.aborted.Load() {
		return
	}
	if d < 0 {
		d = 0
	}
	until := e.clock + int64(d)
	e.point(fmt.Sprintf("sleep(%v)", d), func() bool { return e.clock >= until }, until)
	e.note(e.cur, "sleep")
}

// After schedules fn as an environment event at virtual time now+d (harness use: datagram
// deliveries). It runs on the scheduler, not on a thread, and must not block.
func After(d time.Duration, fn func()) {
	e := cur
	e.timerSeq++
	e.timers = append(e.timers, timerEv{at: e.clock + int64(d), seq: e.timerSeq, fn: fn})
}

// ---- mutex -------------------------------------------------------------------------------------

type mutexState struct {
	held  bool
	owner int
	vc    VC
}

// Mutex replaces sync.Mutex (zero value usable; identity = address).
type Mutex struct{ _ byte }

func (e *Exec) mutex(m *Mutex) *mutexState {
	k := reflect.ValueOf(m).Pointer()
	s := e.mutexes[k]
	if s == nil {
		s = &mutexState{}
		e.mutexes[k] = s
		e.pinned = append(e.pinned, m)
	}
	return s
}

func (m *Mutex) Lock() {
	if cur == nil {
		outMutex(m).Lock()
		return
	}
	e := cur
	if e.aborted.Load() {
		return
	}
	s := e.mutex(m)
	e.point("mutex.Lock", func() bool { return !s.held }, -1)
	s.held, s.owner = true, e.cur.id
	e.cur.vc = e.cur.vc.join(s.vc)
	e.note(e.cur, "lock")
}

func (m *Mutex) Unlock() {
	if cur == nil {
		outMutex(m).Unlock()
		return
	}
	e := cur
	if e.aborted.Load() {
		return
	}
	s := e.mutex(m)
	if !s.held {
		panic("sync: unlock of unlocked mutex")
	}
	e.point("mutex.Unlock", nil, -1)
	s.vc = s.vc.join(e.cur.vc)
	e.cur.vc[e.cur.id]++
	s.held = false
	e.note(e.cur, "unlock")
}

func (m *Mutex) TryLock() bool {
	if cur == nil {
		return outMutex(m).TryLock()
	}
	e := cur
	if e.aborted.Load() {
		return false
	}
	s := e.mutex(m)
	e.point("mutex.TryLock", nil, -1)
	if s.held {
		e.note(e.cur, "trylock-fail")
		return false
	}
	s.held, s.owner = true, e.cur.id
	e.cur.vc = e.cur.vc.join(s.vc)
	e.note(e.cur, "trylock-ok")
	return true
}

// RWMutex replaces sync.RWMutex: any number of readers or one writer. Writer preference (a waiting
// writer blocking new readers) is not modelled: the set of reachable lock states is the same, since
// a reader that slips in "after" a waiting writer could equally have arrived just before it.
// Happens-before: Unlock -> every later RLock/Lock; RUnlock -> every later Lock (readers do not
// synchronise with one another).
type RWMutex struct{ _ byte }

type rwState struct {
	writer  bool
	readers int
	wvc     VC // released by writers
	rvc     VC // released by readers
}

var rwmutexes = map[uintptr]*rwState{}

func (e *Exec) rwOf(m *RWMutex) *rwState {
	k := reflect.ValueOf(m).Pointer()
	s := rwmutexes[k]
	if s == nil {
		s = &rwState{}
		rwmutexes[k] = s
		e.pinned = append(e.pinned, m)
	}
	return s
}

func (m *RWMutex) Lock() {
	if cur == nil {
		outMutex(m).Lock()
		return
	}
	e := cur
	if e.aborted.Load() {
		return
	}
	s := e.rwOf(m)
	e.point("rwmutex.Lock", func() bool { return !s.writer && s.readers == 0 }, -1)
	s.writer = true
	e.cur.vc = e.cur.vc.join(s.wvc).join(s.rvc)
	e.note(e.cur, "wlock")
}

func (m *RWMutex) Unlock() {
	if cur == nil {
		outMutex(m).Unlock()
		return
	}
	e := cur
	if e.aborted.Load() {
		return
	}
	s := e.rwOf(m)
	if !s.writer {
		panic("sync: Unlock of unlocked RWMutex")
	}
	e.point("rwmutex.Unlock", nil, -1)
	s.wvc = s.wvc.join(e.cur.vc)
	e.cur.vc[e.cur.id]++
	s.writer = false
	e.note(e.cur, "wunlock")
}

func (m *RWMutex) RLock() {
	if cur == nil {
		outMutex(m).RLock()
		return
	}
	e := cur
	if e.aborted.Load() {
		return
	}
	s := e.rwOf(m)
	e.point("rwmutex.RLock", func() bool { return !s.writer }, -1)
	s.readers++
	e.cur.vc = e.cur.vc.join(s.wvc)
	e.note(e.cur, "rlock")
}

func (m *RWMutex) RUnlock() {
	if cur == nil {
		outMutex(m).RUnlock()
		return
	}
	e := cur
	if e.aborted.Load() {
		return
	}
	s := e.rwOf(m)
	if s.readers == 0 {
		panic("sync: RUnlock of unlocked RWMutex")
	}
	e.point("rwmutex.RUnlock", nil, -1)
	s.rvc = s.rvc.join(e.cur.vc)
	e.cur.vc[e.cur.id]++
	s.readers--
	e.note(e.cur, "runlock")
}

func (m *RWMutex) TryLock() bool {
	if cur == nil {
		return outMutex(m).TryLock()
	}
	e := cur
	if e.aborted.Load() {
		return false
	}
	s := e.rwOf(m)
	e.point("rwmutex.TryLock", nil, -1)
	if s.writer || s.readers > 0 {
		e.note(e.cur, "trywlock-fail")
		return false
	}
	s.writer = true
	e.cur.vc = e.cur.vc.join(s.wvc).join(s.rvc)
	e.note(e.cur, "trywlock-ok")
	return true
}

func (m *RWMutex) TryRLock() bool {
	if cur == nil {
		return outMutex(m).TryRLock()
	}
	e := cur
	if e.aborted.Load() {
		return false
	}
	s := e.rwOf(m)
	e.point("rwmutex.TryRLock", nil, -1)
	if s.writer {
		e.note(e.cur, "tryrlock-fail")
		return false
	}
	s.readers++
	e.cur.vc = e.cur.vc.join(s.wvc)
	e.note(e.cur, "tryrlock-ok")
	return true
}

// WaitGroup replaces sync.WaitGroup.
type WaitGroup struct{ _ byte }

type wgState struct {
	n  int
	vc VC
}

var wgs = map[uintptr]*wgState{}

func (e *Exec) wgOf(w *WaitGroup) *wgState {
	k := reflect.ValueOf(w).Pointer()
	s := wgs[k]
	if s == nil {
		s = &wgState{}
		wgs[k] = s
		e.pinned = append(e.pinned, w)
	}
	return s
}

func (w *WaitGroup) Add(n int) {
	if cur == nil {
		outWG(w).Add(n)
		return
	}
	e := cur
	if e.aborted.Load() {
		return
	}
	s := e.wgOf(w)
	e.point("wg.Add", nil, -1)
	s.n += n
	s.vc = s.vc.join(e.cur.vc)
	e.cur.vc[e.cur.id]++
}
func (w *WaitGroup) Done() { w.Add(-1) }
func (w *WaitGroup) Wait() {
	if cur == nil {
		outWG(w).Wait()
		return
	}
	e := cur
	if e.aborted.Load() {
		return
	}
	s := e.wgOf(w)
	e.point("wg.Wait", func() bool { return s.n <= 0 }, -1)
	e.cur.vc = e.cur.vc.join(s.vc)
}

// ---- channels ----------------------------------------------------------------------------------

type chanState struct {
	cap      int
	buf      []any
	bufVC    []VC
	closed   bool
	closeVC  VC
	recvWait int // plain receivers parked on this channel
	slot     []any
	slotVC   []VC
	selRecv  []*Sel // selects waiting to receive from this channel
	selSend  []*Sel // selects waiting to send on this channel
}

func (s *chanState) liveSelRecv(except *Sel) *Sel {
	for _, x := range s.selRecv {
		if x != except && x.active && !x.committed {
			return x
		}
	}
	return nil
}

func (s *chanState) liveSelSend(except *Sel) (*Sel, int) {
	for _, x := range s.selSend {
		if x != except && x.active && !x.committed {
			for i, c := range x.cases {
				if c.send && c.ch == s {
					return x, i
				}
			}
		}
	}
	return nil, -1
}

func (s *chanState) canSend(except *Sel) bool {
	return s.closed || len(s.buf) < s.cap || s.recvWait > len(s.slot) || s.liveSelRecv(except) != nil
}

func (s *chanState) canRecv(except *Sel) bool {
	if len(s.buf) > 0 || len(s.slot) > 0 || s.closed {
		return true
	}
	x, _ := s.liveSelSend(except)
	return x != nil
}

func (e *Exec) chanOf(ch any) *chanState {
	v := reflect.ValueOf(ch)
	k := v.Pointer()
	s := e.chans[k]
	if s == nil {
		s = &chanState{cap: v.Cap()}
		e.chans[k] = s
		e.pinned = append(e.pinned, ch)
	}
	return s
}

// deposit performs the send side on channel state s (the caller has established canSend).
func (e *Exec) deposit(s *chanState, v any, except *Sel) {
	me := e.cur
	if s.closed {
		panic("send on closed channel")
	}
	switch {
	case len(s.buf) < s.cap:
		s.buf = append(s.buf, v)
		s.bufVC = append(s.bufVC, me.vc.copy())
	case s.recvWait > len(s.slot):
		s.slot = append(s.slot, v)
		s.slotVC = append(s.slotVC, me.vc.copy())
	default:
		x := s.liveSelRecv(except)
		for i, c := range x.cases {
			if !c.send && c.ch == s {
				x.committed, x.chosen = true, i
				break
			}
		}
		s.slot = append(s.slot, v)
		s.slotVC = append(s.slotVC, me.vc.copy())
	}
	me.vc[me.id]++
}

// take performs the receive side (the caller has established canRecv).
func (e *Exec) take(s *chanState, except *Sel) (any, bool) {
	me := e.cur
	switch {
	case len(s.buf) > 0:
		v := s.buf[0]
		me.vc = me.vc.join(s.bufVC[0])
		s.buf, s.bufVC = s.buf[1:], s.bufVC[1:]
		return v, true
	case len(s.slot) > 0:
		v := s.slot[0]
		me.vc = me.vc.join(s.slotVC[0])
		s.slot, s.slotVC = s.slot[1:], s.slotVC[1:]
		return v, true
	case s.closed:
		me.vc = me.vc.join(s.closeVC)
		return nil, false
	}
	// a select is waiting to send on this channel: pull its value and commit it to that case
	x, i := s.liveSelSend(except)
	x.committed, x.chosen, x.sent = true, i, true
	me.vc = me.vc.join(x.vc)
	return x.cases[i].val, true
}

// Send replaces `ch <- v`.
func Send[T any](ch chan<- T, v T) {
	e := cur
	if e.aborted.Load() {
		return
	}
	if ch == nil {
		e.point("send(nil chan)", func() bool { return false }, -1)
	}
	s := e.chanOf(ch)
	e.point("chan.send", func() bool { return s.canSend(nil) }, -1)
	e.deposit(s, v, nil)
	e.note(e.cur, "send")
}

func recv[T any](ch <-chan T) (T, bool) {
	e := cur
	var zero T
	if e.aborted.Load() {
		return zero, false
	}
	if ch == nil {
		e.point("recv(nil chan)", func() bool { return false }, -1)
	}
	s := e.chanOf(ch)
	s.recvWait++
	e.point("chan.recv", func() bool { return s.canRecv(nil) }, -1)
	s.recvWait--
	v, ok := e.take(s, nil)
	if !ok {
		e.note(e.cur, "recv-closed")
		return zero, false
	}
	e.note(e.cur, "recv")
	if v == nil {
		return zero, true
	}
	return v.(T), true
}

// Recv replaces `<-ch`.
func Recv[T any](ch <-chan T) T {
	v, _ := recv(ch)
	return v
}

// Recv2 replaces `v, ok := <-ch`.
func Recv2[T any](ch <-chan T) (T, bool) { return recv(ch) }

// Close replaces `close(ch)`.
func Close[T any](ch chan<- T) {
	e := cur
	if e.aborted.Load() {
		return
	}
	s := e.chanOf(ch)
	e.point("chan.close", nil, -1)
	if s.closed {
		panic("close of closed channel")
	}
	s.closed = true
	s.closeVC = e.cur.vc.copy()
	e.cur.vc[e.cur.id]++
	e.note(e.cur, "close")
}

// ---- select ------------------------------------------------------------------------------------

type selCase struct {
	ch   *chanState
	send bool
	val  any
}

// Sel replaces a select statement: cases are registered in source order, Wait blocks until one
// can proceed and returns its index (-1 = default). Which of several ready cases is taken is a
// scheduling choice (Go picks pseudo-randomly).
type Sel struct {
	e          *Exec
	cases      []selCase
	hasDefault bool
	active     bool
	committed  bool
	chosen     int
	sent       bool // a receiver pulled the value of the chosen send case
	vc         VC
	got        any
	gotOK      bool
}

func NewSelect(hasDefault bool) *Sel { return &Sel{e: cur, hasDefault: hasDefault, chosen: -1} }

func SelRecv[T any](x *Sel, ch <-chan T) {
	if x.e.aborted.Load() {
		return
	}
	if ch == nil {
		x.cases = append(x.cases, selCase{ch: &chanState{}})
		return
	}
	x.cases = append(x.cases, selCase{ch: x.e.chanOf(ch)})
}

func SelSend[T any](x *Sel, ch chan<- T, v T) {
	if x.e.aborted.Load() {
		return
	}
	if ch == nil {
		x.cases = append(x.cases, selCase{ch: &chanState{}, send: true})
		return
	}
	x.cases = append(x.cases, selCase{ch: x.e.chanOf(ch), send: true, val: v})
}

func (x *Sel) ready() []int {
	var r []int
	for i, c := range x.cases {
		if (c.send && c.ch.canSend(x)) || (!c.send && c.ch.canRecv(x)) {
			r = append(r, i)
		}
	}
	return r
}

// Wait blocks until a case can proceed and performs its channel operation.
func (x *Sel) Wait() int {
	e := x.e
	if e.aborted.Load() {
		panic(abortSentinel{})
	}
	x.active = true
	x.vc = e.cur.vc.copy()
	for _, c := range x.cases {
		if c.send {
			c.ch.selSend = append(c.ch.selSend, x)
		} else {
			c.ch.selRecv = append(c.ch.selRecv, x)
		}
	}
	e.point("select", func() bool { return x.committed || x.hasDefault || len(x.ready()) > 0 }, -1)
	defer func() {
		x.active = false
		for _, c := range x.cases {
			c.ch.selSend = dropSel(c.ch.selSend, x)
			c.ch.selRecv = dropSel(c.ch.selRecv, x)
		}
	}()
	if !x.committed {
		r := x.ready()
		if len(r) == 0 {
			e.note(e.cur, "select-default")
			return -1
		}
		x.chosen = r[0]
		if len(r) > 1 {
			x.chosen = r[Choose(len(r), "select-case")]
		}
		x.committed = true
		c := x.cases[x.chosen]
		if c.send {
			e.deposit(c.ch, c.val, x)
		}
	}
	c := x.cases[x.chosen]
	if !c.send {
		x.got, x.gotOK = e.take(c.ch, x)
	}
	e.note(e.cur, fmt.Sprintf("select-%d", x.chosen))
	return x.chosen
}

func dropSel(l []*Sel, x *Sel) []*Sel {
	out := l[:0]
	for _, y := range l {
		if y != x {
			out = append(out, y)
		}
	}
	return out
}

// Take returns the value received by the chosen receive case.
func Take[T any](x *Sel, ch <-chan T) T {
	v, _ := Take2(x, ch)
	return v
}

func Take2[T any](x *Sel, ch <-chan T) (T, bool) {
	var zero T
	if x.e.aborted.Load() || x.got == nil {
		return zero, x.gotOK
	}
	return x.got.(T), x.gotOK
}

// TimeAfter replaces time.After: a channel that receives the (virtual) time after d.
func TimeAfter(d time.Duration) chan time.Time {
	e := cur
	ch := make(chan time.Time, 1)
	if e.aborted.Load() {
		return ch
	}
	s := e.chanOf(ch)
	e.timerSeq++
	e.timers = append(e.timers, timerEv{at: e.clock + int64(d), seq: e.timerSeq, fn: func() {
		s.buf = append(s.buf, Now())
		s.bufVC = append(s.bufVC, VC{})
	}})
	return ch
}

// ---- race detection ----------------------------------------------------------------------------

type varState struct {
	wTid   int
	wClock int32
	wID    string
	reads  map[int]int32
	rID    map[int]string
}

func (e *Exec) varOf(ptr any) *varState {
	p := reflect.ValueOf(ptr).Pointer()
	s := e.vars[p]
	if s == nil {
		s = &varState{wTid: -1, reads: map[int]int32{}, rID: map[int]string{}}
		e.vars[p] = s
		e.pinned = append(e.pinned, ptr)
	}
	return s
}

func (e *Exec) race(kind, a, b string) {
	if a > b {
		a, b = b, a
	}
	k := kind + " " + a + " <-> " + b
	if !e.raceSet[k] {
		e.raceSet[k] = true
		e.Races = append(e.Races, k)
	}
}

// R stamps a read of a shared variable (not a scheduling point) and returns p.
func R[T any](p *T, id string) *T {
	e := cur
	if e == nil || e.aborted.Load() || e.cur == nil {
		return p
	}
	me := e.cur
	s := e.varOf(p)
	if s.wTid >= 0 && s.wTid != me.id && s.wClock > me.vc.get(s.wTid) {
		e.race("write/read", s.wID, id)
	}
	s.reads[me.id] = me.vc[me.id]
	s.rID[me.id] = id
	return p
}

// W stamps a write of a shared variable (not a scheduling point) and returns p.
func W[T any](p *T, id string) *T {
	e := cur
	if e == nil || e.aborted.Load() || e.cur == nil {
		return p
	}
	me := e.cur
	s := e.varOf(p)
	if s.wTid >= 0 && s.wTid != me.id && s.wClock > me.vc.get(s.wTid) {
		e.race("write/write", s.wID, id)
	}
	for tid, c := range s.reads {
		if tid != me.id && c > me.vc.get(tid) {
			e.race("write/read", id, s.rID[tid])
		}
	}
	s.wTid, s.wClock, s.wID = me.id, me.vc[me.id], id
	s.reads = map[int]int32{}
	s.rID = map[int]string{}
	return p
}

// ---------------------------------------------------------------------------------------------
// running one execution

type Options struct {
	Horizon  int  // max scheduling points per execution (default 2000)
	Trace    bool // record the op trace
	Keys     bool // compute state keys at thread choice points (for pruning)
	TimeSkip bool // allow "let time pass while threads are runnable" as a preemption-cost deviation
}

// Run executes body once under the scheduler, following prefix and then default choices.
func Run(prefix []int, sigs []uint32, opt Options, body func()) *Exec {
	e := &Exec{prefix: prefix, sigs: sigs, horizon: opt.Horizon, tracing: opt.Trace, keying: opt.Keys, timeSkip: opt.TimeSkip,
		mutexes: map[uintptr]*mutexState{}, chans: map[uintptr]*chanState{}, vars: map[uintptr]*varState{}, raceSet: map[string]bool{}}
	if e.horizon == 0 {
		e.horizon = 2000
	}
	wgs = map[uintptr]*wgState{}
	rwmutexes = map[uintptr]*rwState{}
	resetSyncx()
	resetAtoms()
	e.Net = newNetwork(e)
	cur = e
	e.lastProg.Store(time.Now().UnixNano())
	main := e.spawn("main", body)
	e.cur = main
	main.started = true
	main.wake <- struct{}{}

	// watchdog: a thread blocked outside the scheduler (un-instrumented blocking call) would hang
	// the process; turn that into a machinery error.
	done := make(chan struct{})
	go func() {
		e.wg.Wait()
		close(done)
	}()
	tick := time.NewTicker(200 * time.Millisecond)
	defer tick.Stop()
	lastTick, lastSeen, stalled := time.Now().UnixNano(), e.lastProg.Load(), int64(0)
	for {
		select {
		case <-done:
			sort.Strings(e.Races)
			if e.Abort == "" && len(e.Points) < len(e.prefix) {
				e.Abort, e.AbortMsg = "NONDETERMINISM", fmt.Sprintf("execution ended after %d choice points but the schedule to replay has %d", len(e.Points), len(e.prefix))
			}
			return e
		case <-tick.C:
			// the stall is accumulated from ticks that arrived on time only: a tick that comes late means
			// the whole process (or machine: snapshot, suspend, swap storm) stood still, which says nothing
			// about the execution
			now := time.Now().UnixNano()
			gap := now - lastTick
			lastTick = now
			switch prog := e.lastProg.Load(); {
			case prog != lastSeen:
				lastSeen, stalled = prog, 0
			case gap < int64(600*time.Millisecond):
				stalled += gap
			}
			if stalled > int64(20*time.Second) {
				e.Abort, e.AbortMsg = "HANG", "no scheduling point reached for 20 s of wall-clock time (un-instrumented blocking operation?)"
				return e
			}
		}
	}
}

// Choices returns the choice sequence of the execution.
func (e *Exec) Choices() []int {
	c := make([]int, len(e.Points))
	for i, p := range e.Points {
		c[i] = p.Chosen
	}
	return c
}

func (e *Exec) stateKey() uint64 {
	h := uint64(14695981039346656037)
	mix := func(x uint64) { h = (h ^ x) * 1099511628211 }
	mix(uint64(e.clock))
	for _, t := range e.threads {
		mix(t.hist)
		mix(uint64(hash32(t.op)))
		if t.done {
			mix(1)
		}
		if t.yielded {
			mix(2)
		}
		mix(uint64(t.deadline))
	}
	mix(uint64(e.cur.id))
	mix(e.Net.key())
	for _, tm := range e.timers {
		mix(uint64(tm.at))
	}
	for _, s := range e.Log {
		mix(uint64(hash32(s)))
	}
	return h
}
