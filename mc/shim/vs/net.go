package vs

import (
	"errors"
	"fmt"
	"io"
	"net"
	"os"
	"sort"
	"strconv"
	"strings"
	"syscall"
	"time"
)

// ---------------------------------------------------------------------------------------------
// A deliberately boring model of the part of the kernel's IP stack the driver uses.

type Packet struct {
	Proto   string // "udp" | "tcp"
	Src     string // ip:port
	Dst     string
	Data    []byte
	At      int64 // virtual ns
	SrcSock int   // fd of the sending library socket (-1: from the environment)
}

type sockState struct {
	fd        int
	proto     string
	localIP   net.IP
	localPort int
	peer      string // connected UDP / TCP peer ("" = unconnected)
	reuse     bool
	closed    bool
	listening bool
	rdl, wdl  int64 // read / write deadlines (virtual ns, -1 none)
	queue     []datagram
	stream    []byte // TCP receive stream
	eof       bool   // TCP peer closed
	rst       bool   // TCP reset / ICMP unreachable pending as read error
	vc        VC
	openedBy  int
	readers   int
	owner     string
	// timeWait: a TCP connection this side closed first lingers in TIME_WAIT until this virtual time;
	// its local port can be bound again only by a socket that has SO_REUSEADDR set
	timeWait int64
	// family: the network string the socket was opened with ("udp" on the wildcard address is a
	// dual-stack socket: it also receives datagrams that arrive over IPv6; "udp4" does not)
	family string
}

type datagram struct {
	data []byte
	from *net.UDPAddr
}

// Environment decides what the world does with what the library sends.
type Environment interface {
	// OnUDP is called for every datagram the library sends; it may schedule replies with
	// Network.DeliverUDP from vs.After callbacks or immediately.
	OnUDP(n *Network, p Packet)
	// OnTCPConnect decides the fate of a connection attempt: "accept", "refuse", "blackhole".
	OnTCPConnect(n *Network, src, dst string) string
	// OnTCP is called for bytes written on an accepted connection.
	OnTCP(n *Network, fd int, p Packet)
}

type Network struct {
	// FdBase: the first descriptor number the simulated kernel hands out (3; 0 = standard streams closed)
	FdBase int
	// Ifaces: the host's interface table as net.Interfaces reports it (nil: DefaultIfaces)
	Ifaces []Interface
	// SendFails, when set, lets the environment make a send fail locally (ENETUNREACH, ENOBUFS ...):
	// nothing leaves the host.
	SendFails func(p Packet) error
	e         *Exec
	socks     []*sockState
	Packets   []Packet // everything the library put on the wire
	Env       Environment
	nextEph   int
	ReadOps   int      // read operations performed on any socket
	ReadLog   [][]byte // every datagram a UDP read returned, in order
	// HostIPs are the addresses of the simulated host (a bind to another address fails).
	Errors []string
}

func newNetwork(e *Exec) *Network {
	return &Network{e: e, nextEph: 40000, FdBase: 3}
}

// Net returns the simulated network of the current execution.
func Net() *Network { return cur.Net }

func (n *Network) key() uint64 {
	h := uint64(1469598103934665603)
	for _, s := range n.socks {
		h = (h ^ uint64(s.localPort)) * 1099511628211
		if s.closed {
			h = (h ^ 1) * 1099511628211
		}
		h = (h ^ uint64(len(s.queue))) * 1099511628211
		for _, d := range s.queue {
			h = (h ^ uint64(hash32(string(d.data)))) * 1099511628211
		}
		h = (h ^ uint64(len(s.stream))) * 1099511628211
		h = (h ^ uint64(s.rdl)) * 1099511628211
	}
	return h
}

// OpenSockets lists the sockets that are still open (leak oracle).
func (n *Network) OpenSockets() []string {
	out := []string{}
	for _, s := range n.socks {
		if !s.closed {
			out = append(out, fmt.Sprintf("fd%d %s %s:%d peer=%s", s.fd, s.proto, s.localIP, s.localPort, s.peer))
		}
	}
	return out
}

func (n *Network) sock(fd int) *sockState { return n.socks[fd] }

func (n *Network) portInUse(proto string, port int, reuse bool) bool {
	for _, s := range n.socks {
		if s.closed && s.proto == "tcp" && proto == "tcp" && s.localPort == port && s.timeWait > n.e.clock && !reuse {
			return true // TIME_WAIT: only SO_REUSEADDR lets the port be bound again
		}
		if !s.closed && s.proto == proto && s.localPort == port {
			if !(reuse && s.reuse) {
				return true
			}
		}
	}
	return false
}

func (n *Network) ephemeral(proto string) int {
	for {
		n.nextEph++
		if !n.portInUse(proto, n.nextEph, false) {
			return n.nextEph
		}
	}
}

func (n *Network) newSock(proto string, ip net.IP, port int, reuse bool) (*sockState, error) {
	if ip == nil || ip.To4() == nil {
		ip = net.IPv4zero
	}
	if port != 0 && n.portInUse(proto, port, reuse) {
		return nil, &net.OpError{Op: "listen", Net: proto, Addr: &net.UDPAddr{IP: ip, Port: port}, Err: os.NewSyscallError("bind", syscall.EADDRINUSE)}
	}
	if port == 0 {
		port = n.ephemeral(proto)
	}
	s := &sockState{fd: len(n.socks), proto: proto, localIP: ip.To4(), localPort: port, reuse: reuse, rdl: -1, wdl: -1, openedBy: n.e.cur.id}
	n.socks = append(n.socks, s)
	return s, nil
}

// acqrel models the atomic read-modify-write the real net package performs on the fd's mutex
// word in every Read/Write/Close: a happens-before edge between consecutive socket operations.
func (n *Network) acqrel(s *sockState) {
	me := n.e.cur
	me.vc = me.vc.join(s.vc)
	s.vc = s.vc.join(me.vc)
	me.vc[me.id]++
}

type timeoutError struct{ op string }

func (t *timeoutError) Error() string   { return "i/o timeout" }
func (t *timeoutError) Timeout() bool   { return true }
func (t *timeoutError) Temporary() bool { return true }
func (t *timeoutError) Is(err error) bool {
	return err == os.ErrDeadlineExceeded
}

var errClosed = net.ErrClosed

func opErr(op, proto string, s *sockState, err error) error {
	return &net.OpError{Op: op, Net: proto, Source: &net.UDPAddr{IP: s.localIP, Port: s.localPort}, Err: err}
}

// DeliverUDP injects a datagram from the environment. The recipient is the open UDP socket bound
// to dst's port: a connected socket only accepts datagrams from its peer; if several sockets are
// eligible the recipient is an environment choice (how a crossed reply becomes reachable when the
// port serialisation is broken). Returns false if nobody listens.
func (n *Network) DeliverUDP(src, dst string, data []byte) bool {
	_, dport := splitHostPort(dst)
	from := udpAddr(src)
	var exact, loose []*sockState
	for _, s := range n.socks {
		if s.closed || s.proto != "udp" || s.localPort != dport {
			continue
		}
		if from != nil && from.IP.To4() == nil {
			// a datagram that arrives over IPv6: only a dual-stack socket (opened as "udp" / "udp6" on the
			// wildcard address) receives it
			if s.family == "udp4" || (s.family == "" && s.peer != "") || !(s.localIP == nil || s.localIP.IsUnspecified()) {
				continue
			}
		}
		if s.peer != "" {
			if s.peer == src {
				exact = append(exact, s)
			}
			continue
		}
		loose = append(loose, s)
	}
	cands := exact
	if len(cands) == 0 {
		cands = loose
	}
	if len(cands) == 0 {
		return false
	}
	s := cands[0]
	if len(cands) > 1 {
		s = cands[Choose(len(cands), "deliver-to")]
	}
	s.queue = append(s.queue, datagram{data: append([]byte{}, data...), from: from})
	return true
}

// DeliverTCP appends bytes to the receive stream of connection fd.
func (n *Network) DeliverTCP(fd int, data []byte) {
	s := n.socks[fd]
	if !s.closed {
		s.stream = append(s.stream, data...)
	}
}

// CloseTCP makes the peer close (eof) or reset the connection fd.
func (n *Network) CloseTCP(fd int, reset bool) {
	s := n.socks[fd]
	if reset {
		s.rst = true
	} else {
		s.eof = true
	}
}

// Unreachable makes the next read on connected-UDP socket fd fail with ECONNREFUSED.
func (n *Network) Unreachable(fd int) { n.socks[fd].rst = true }

func splitHostPort(a string) (string, int) {
	h, p, err := net.SplitHostPort(a)
	if err != nil {
		return a, 0
	}
	port, _ := strconv.Atoi(p)
	return h, port
}

func udpAddr(a string) *net.UDPAddr {
	h, p := splitHostPort(a)
	ip := net.ParseIP(h)
	if v4 := ip.To4(); v4 != nil {
		ip = v4
	}
	return &net.UDPAddr{IP: ip, Port: p}
}

// ---- UDP ---------------------------------------------------------------------------------------

type UDPConn struct {
	s *sockState
	n *Network
}

// ListenUDP replaces net.ListenUDP.
func ListenUDP(network string, laddr *net.UDPAddr) (*UDPConn, error) {
	e := cur
	if e.aborted.Load() {
		return nil, errors.New("aborted")
	}
	e.point("ListenUDP", nil, -1)
	var ip net.IP
	port := 0
	if laddr != nil {
		ip, port = laddr.IP, laddr.Port
	}
	s, err := e.Net.newSock("udp", ip, port, false)
	if err != nil {
		e.note(e.cur, "listen-fail")
		return nil, err
	}
	s.listening = true
	s.family = network
	e.Net.acqrel(s)
	e.note(e.cur, "listen-ok")
	return &UDPConn{s: s, n: e.Net}, nil
}

func (c *UDPConn) LocalAddr() net.Addr {
	return &net.UDPAddr{IP: c.s.localIP, Port: c.s.localPort}
}

func (c *UDPConn) Close() error { return closeSock(c.n, c.s) }

func closeSock(n *Network, s *sockState) error {
	e := n.e
	if e.aborted.Load() {
		s.closed = true
		return nil
	}
	e.point("Close", nil, -1)
	n.acqrel(s)
	if s.closed {
		e.note(e.cur, "close-again")
		return opErr("close", s.proto, s, errClosed)
	}
	s.closed = true
	if s.proto == "tcp" && s.peer != "" && !s.eof && !s.rst {
		// active close: this side goes through TIME_WAIT (2 x MSL = 60 s)
		s.timeWait = e.clock + int64(60*time.Second)
	}
	e.note(e.cur, "close")
	return nil
}

func (c *UDPConn) SetDeadline(t time.Time) error {
	return setDeadline(c.n, c.s, t, true, true)
}
func (c *UDPConn) SetReadDeadline(t time.Time) error {
	return setDeadline(c.n, c.s, t, true, false)
}
func (c *UDPConn) SetWriteDeadline(t time.Time) error {
	return setDeadline(c.n, c.s, t, false, true)
}

func setDeadline(n *Network, s *sockState, t time.Time, r, w bool) error {
	if n.e.aborted.Load() {
		return nil
	}
	if s.closed {
		return opErr("set", s.proto, s, errClosed)
	}
	v := toVirtual(t)
	if r {
		s.rdl = v
	}
	if w {
		s.wdl = v
	}
	return nil
}

func (c *UDPConn) WriteToUDP(b []byte, addr *net.UDPAddr) (int, error) {
	return writeUDP(c.n, c.s, b, addr.String())
}

func writeUDP(n *Network, s *sockState, b []byte, dst string) (int, error) {
	e := n.e
	if e.aborted.Load() {
		return 0, errors.New("aborted")
	}
	e.point("WriteUDP", nil, -1)
	n.acqrel(s)
	if s.closed {
		e.note(e.cur, "write-closed")
		return 0, opErr("write", "udp", s, errClosed)
	}
	if s.wdl >= 0 && s.wdl <= e.clock {
		e.note(e.cur, "write-timeout")
		return 0, opErr("write", "udp", s, &timeoutError{})
	}
	p := Packet{Proto: "udp", Src: fmt.Sprintf("%s:%d", s.localIP, s.localPort), Dst: dst, Data: append([]byte{}, b...), At: e.clock, SrcSock: s.fd}
	if n.SendFails != nil {
		if err := n.SendFails(p); err != nil { // the local stack refuses to send (no route, buffers full ...)
			e.note(e.cur, "write-fails")
			return 0, opErr("write", "udp", s, err)
		}
	}
	n.Packets = append(n.Packets, p)
	e.note(e.cur, "write")
	if n.Env != nil {
		n.Env.OnUDP(n, p)
	}
	return len(b), nil
}

func (c *UDPConn) ReadFromUDP(b []byte) (int, *net.UDPAddr, error) {
	return readUDP(c.n, c.s, b)
}

func readUDP(n *Network, s *sockState, b []byte) (int, *net.UDPAddr, error) {
	e := n.e
	if e.aborted.Load() {
		return 0, nil, errors.New("aborted")
	}
	timedOut := e.point("ReadUDP", func() bool { return s.closed || len(s.queue) > 0 || s.rst }, s.rdl)
	n.acqrel(s)
	n.ReadOps++
	switch {
	case s.closed:
		e.cur.yielded = true // a failing read on a closed socket must not spin
		e.note(e.cur, "read-closed")
		return 0, nil, opErr("read", "udp", s, errClosed)
	case len(s.queue) > 0:
		d := s.queue[0]
		s.queue = s.queue[1:]
		k := copy(b, d.data)
		n.ReadLog = append(n.ReadLog, append([]byte{}, d.data...))
		e.note(e.cur, "read:"+string(d.data))
		return k, d.from, nil
	case s.rst:
		s.rst = false
		e.note(e.cur, "read-refused")
		return 0, nil, opErr("read", "udp", s, os.NewSyscallError("read", syscall.ECONNREFUSED))
	case timedOut || (s.rdl >= 0 && s.rdl <= e.clock):
		e.note(e.cur, "read-timeout")
		return 0, nil, opErr("read", "udp", s, &timeoutError{})
	}
	panic("vs: readUDP released without cause")
}

// ---- Dialer ------------------------------------------------------------------------------------

// Conn is what Dialer.Dial returns (the subset of net.Conn the driver uses).
type Conn interface {
	Read(b []byte) (int, error)
	Write(b []byte) (int, error)
	Close() error
	LocalAddr() net.Addr
	RemoteAddr() net.Addr
	SetDeadline(t time.Time) error
	SetReadDeadline(t time.Time) error
	SetWriteDeadline(t time.Time) error
}

// Dialer replaces net.Dialer (the fields the driver sets).
type Dialer struct {
	Timeout   time.Duration
	Deadline  time.Time
	LocalAddr net.Addr
	Control   func(network, address string, c syscall.RawConn) error
}

type rawConn struct{ fd uintptr }

func (r rawConn) Control(f func(fd uintptr)) error    { f(r.fd); return nil }
func (r rawConn) Read(f func(fd uintptr) bool) error  { return errors.New("not supported") }
func (r rawConn) Write(f func(fd uintptr) bool) error { return errors.New("not supported") }

// The descriptor numbers the simulated kernel hands out start at Network.FdBase: 3 in an ordinary
// process (stdin, stdout, stderr are open), 0 in one started with its standard streams closed.

// SetsockoptInt replaces syscall.SetsockoptInt: options land in the simulated socket.
func SetsockoptInt(fd, level, opt int, value int) error {
	e := cur
	if e.aborted.Load() {
		return nil
	}
	fdBase := e.Net.FdBase
	if fd < fdBase || fd-fdBase >= len(e.Net.socks) {
		return syscall.EBADF
	}
	s := e.Net.socks[fd-fdBase]
	if level == syscall.SOL_SOCKET && opt == syscall.SO_REUSEADDR {
		s.reuse = value != 0
	}
	return nil
}

type dconn struct {
	s *sockState
	n *Network
}

func (d *Dialer) Dial(network, address string) (Conn, error) {
	e := cur
	if e.aborted.Load() {
		return nil, errors.New("aborted")
	}
	e.point("Dial("+network+")", nil, -1)
	proto := "udp"
	if len(network) >= 3 && network[:3] == "tcp" {
		proto = "tcp"
	}
	dl := toVirtual(d.Deadline)
	if d.Timeout > 0 {
		if t := e.clock + int64(d.Timeout); dl < 0 || t < dl {
			dl = t
		}
	}
	if dl >= 0 && dl <= e.clock {
		e.note(e.cur, "dial-timeout")
		return nil, &net.OpError{Op: "dial", Net: network, Err: &timeoutError{}}
	}
	var ip net.IP
	port := 0
	switch a := d.LocalAddr.(type) {
	case *net.UDPAddr:
		if proto != "udp" {
			e.note(e.cur, "dial-mismatch")
			return nil, &net.OpError{Op: "dial", Net: network, Err: errors.New("mismatched local address type")}
		}
		if a != nil {
			ip, port = a.IP, a.Port
		}
	case *net.TCPAddr:
		if proto != "tcp" {
			e.note(e.cur, "dial-mismatch")
			return nil, &net.OpError{Op: "dial", Net: network, Err: errors.New("mismatched local address type")}
		}
		if a != nil {
			ip, port = a.IP, a.Port
		}
	}
	// socket(), Control (setsockopt), bind(), connect()
	n := e.Net
	s := &sockState{fd: len(n.socks), proto: proto, rdl: -1, wdl: -1, openedBy: e.cur.id, closed: true}
	n.socks = append(n.socks, s)
	if d.Control != nil {
		if err := d.Control(network, address, rawConn{fd: uintptr(e.Net.FdBase + s.fd)}); err != nil {
			e.note(e.cur, "dial-control-fail")
			return nil, &net.OpError{Op: "dial", Net: network, Err: err}
		}
	}
	if ip == nil || ip.To4() == nil {
		ip = net.IPv4zero
	}
	if port != 0 && n.portInUse(proto, port, s.reuse) {
		e.note(e.cur, "dial-addrinuse")
		return nil, &net.OpError{Op: "dial", Net: network, Err: os.NewSyscallError("bind", syscall.EADDRINUSE)}
	}
	if port == 0 {
		port = n.ephemeral(proto)
	}
	s.localIP, s.localPort, s.peer = ip.To4(), port, address
	if proto == "tcp" {
		fate := "refuse"
		if n.Env != nil {
			fate = n.Env.OnTCPConnect(n, fmt.Sprintf("%s:%d", s.localIP, s.localPort), address)
		}
		if strings.HasPrefix(fate, "accept-after:") {
			// the connection is established late (lost SYN retransmitted, full accept queue, slow link)
			d, _ := time.ParseDuration(strings.TrimPrefix(fate, "accept-after:"))
			at := e.clock + int64(d)
			if dl >= 0 && dl < at {
				s.closed = true
				e.point("connect(slow)", func() bool { return false }, dl)
				e.note(e.cur, "dial-timeout")
				return nil, &net.OpError{Op: "dial", Net: network, Err: &timeoutError{}}
			}
			e.point("connect(slow)", func() bool { return false }, at)
			fate = "accept"
		}
		switch fate {
		case "accept":
		case "blackhole":
			// SYN never answered: connect blocks until the dial deadline
			s.closed = true
			e.point("connect(blackhole)", func() bool { return false }, dl)
			e.note(e.cur, "dial-timeout")
			return nil, &net.OpError{Op: "dial", Net: network, Err: &timeoutError{}}
		default:
			e.note(e.cur, "dial-refused")
			return nil, &net.OpError{Op: "dial", Net: network, Err: os.NewSyscallError("connect", syscall.ECONNREFUSED)}
		}
		n.Packets = append(n.Packets, Packet{Proto: "tcp-connect", Src: fmt.Sprintf("%s:%d", s.localIP, s.localPort), Dst: address, At: e.clock, SrcSock: s.fd})
	}
	s.closed = false
	n.acqrel(s)
	e.note(e.cur, "dial-ok")
	return &dconn{s: s, n: n}, nil
}

func (c *dconn) LocalAddr() net.Addr {
	if c.s.proto == "tcp" {
		return &net.TCPAddr{IP: c.s.localIP, Port: c.s.localPort}
	}
	return &net.UDPAddr{IP: c.s.localIP, Port: c.s.localPort}
}

func (c *dconn) RemoteAddr() net.Addr {
	h, p := splitHostPort(c.s.peer)
	if c.s.proto == "tcp" {
		return &net.TCPAddr{IP: net.ParseIP(h), Port: p}
	}
	return &net.UDPAddr{IP: net.ParseIP(h), Port: p}
}

func (c *dconn) Close() error                       { return closeSock(c.n, c.s) }
func (c *dconn) SetDeadline(t time.Time) error      { return setDeadline(c.n, c.s, t, true, true) }
func (c *dconn) SetReadDeadline(t time.Time) error  { return setDeadline(c.n, c.s, t, true, false) }
func (c *dconn) SetWriteDeadline(t time.Time) error { return setDeadline(c.n, c.s, t, false, true) }

func (c *dconn) Write(b []byte) (int, error) {
	if c.s.proto == "udp" {
		return writeUDP(c.n, c.s, b, c.s.peer)
	}
	e, n, s := c.n.e, c.n, c.s
	if e.aborted.Load() {
		return 0, errors.New("aborted")
	}
	e.point("WriteTCP", nil, -1)
	n.acqrel(s)
	switch {
	case s.closed:
		return 0, opErr("write", "tcp", s, errClosed)
	case s.wdl >= 0 && s.wdl <= e.clock:
		return 0, opErr("write", "tcp", s, &timeoutError{})
	case s.rst:
		return 0, opErr("write", "tcp", s, os.NewSyscallError("write", syscall.ECONNRESET))
	}
	p := Packet{Proto: "tcp", Src: fmt.Sprintf("%s:%d", s.localIP, s.localPort), Dst: s.peer, Data: append([]byte{}, b...), At: e.clock, SrcSock: s.fd}
	if n.SendFails != nil {
		if err := n.SendFails(p); err != nil {
			e.note(e.cur, "write-fails")
			return 0, opErr("write", "tcp", s, err)
		}
	}
	n.Packets = append(n.Packets, p)
	e.note(e.cur, "write")
	if n.Env != nil {
		n.Env.OnTCP(n, s.fd, p)
	}
	return len(b), nil
}

func (c *dconn) Read(b []byte) (int, error) {
	if c.s.proto == "udp" {
		k, _, err := readUDP(c.n, c.s, b)
		return k, err
	}
	e, n, s := c.n.e, c.n, c.s
	if e.aborted.Load() {
		return 0, errors.New("aborted")
	}
	timedOut := e.point("ReadTCP", func() bool { return s.closed || len(s.stream) > 0 || s.eof || s.rst }, s.rdl)
	n.acqrel(s)
	n.ReadOps++
	switch {
	case s.closed:
		e.cur.yielded = true
		e.note(e.cur, "read-closed")
		return 0, opErr("read", "tcp", s, errClosed)
	case len(s.stream) > 0:
		k := copy(b, s.stream)
		e.note(e.cur, "read:"+string(s.stream[:k]))
		s.stream = s.stream[k:]
		return k, nil
	case s.rst:
		e.note(e.cur, "read-reset")
		return 0, opErr("read", "tcp", s, os.NewSyscallError("read", syscall.ECONNRESET))
	case s.eof:
		e.note(e.cur, "read-eof")
		return 0, io.EOF
	case timedOut || (s.rdl >= 0 && s.rdl <= e.clock):
		e.note(e.cur, "read-timeout")
		return 0, opErr("read", "tcp", s, &timeoutError{})
	}
	panic("vs: readTCP released without cause")
}

// SocketSummary is a canonical description of the socket table (leak / rebind oracles).
func (n *Network) SocketSummary() string {
	open := n.OpenSockets()
	sort.Strings(open)
	return fmt.Sprint(open)
}
