package vs

import (
	"reflect"
	"sync"
	"time"
)

// Shims for sync/atomic and the timer API: every atomic operation is a scheduling point and a
// synchronising access (acquire + release on the variable's vector clock — sequentially
// consistent, as Go's atomics are).

type atomState struct{ vc VC }

var atoms = map[uintptr]*atomState{}

func atomPoint(p any, op string) bool {
	e := cur
	if e == nil || e.aborted.Load() {
		return false
	}
	k := reflect.ValueOf(p).Pointer()
	s := atoms[k]
	if s == nil {
		s = &atomState{}
		atoms[k] = s
		e.pinned = append(e.pinned, p)
	}
	e.point("atomic."+op, nil, -1)
	me := e.cur
	me.vc = me.vc.join(s.vc)
	s.vc = s.vc.join(me.vc)
	me.vc[me.id]++
	e.note(me, "atomic."+op)
	return true
}

// atomEnter: inside an execution the operation is a scheduling point (atomPoint); outside one it is
// made atomic by a process-wide real mutex, released by the returned function.
var outAtomMu sync.Mutex

func atomEnter(p any, op string) func() {
	if cur == nil {
		outAtomMu.Lock()
		return outAtomMu.Unlock
	}
	atomPoint(p, op)
	return func() {}
}

type AtomicBool struct{ v bool }

func (a *AtomicBool) Load() bool   { defer atomEnter(a, "Load")(); return a.v }
func (a *AtomicBool) Store(v bool) { defer atomEnter(a, "Store")(); a.v = v }
func (a *AtomicBool) Swap(v bool) bool {
	defer atomEnter(a, "Swap")()
	o := a.v
	a.v = v
	return o
}
func (a *AtomicBool) CompareAndSwap(o, n bool) bool {
	defer atomEnter(a, "CAS")()
	if a.v == o {
		a.v = n
		return true
	}
	return false
}

type atomicInt[T int32 | int64 | uint32 | uint64 | uintptr] struct{ v T }

func (a *atomicInt[T]) Load() T   { defer atomEnter(a, "Load")(); return a.v }
func (a *atomicInt[T]) Store(v T) { defer atomEnter(a, "Store")(); a.v = v }
func (a *atomicInt[T]) Add(d T) T { defer atomEnter(a, "Add")(); a.v += d; return a.v }
func (a *atomicInt[T]) Swap(v T) T {
	defer atomEnter(a, "Swap")()
	o := a.v
	a.v = v
	return o
}
func (a *atomicInt[T]) CompareAndSwap(o, n T) bool {
	defer atomEnter(a, "CAS")()
	if a.v == o {
		a.v = n
		return true
	}
	return false
}

type AtomicInt32 = atomicInt[int32]
type AtomicInt64 = atomicInt[int64]
type AtomicUint32 = atomicInt[uint32]
type AtomicUint64 = atomicInt[uint64]
type AtomicUintptr = atomicInt[uintptr]

type AtomicValue struct{ v any }

func (a *AtomicValue) Load() any   { defer atomEnter(a, "Load")(); return a.v }
func (a *AtomicValue) Store(v any) { defer atomEnter(a, "Store")(); a.v = v }
func (a *AtomicValue) Swap(v any) any {
	defer atomEnter(a, "Swap")()
	o := a.v
	a.v = v
	return o
}
func (a *AtomicValue) CompareAndSwap(o, n any) bool {
	defer atomEnter(a, "CAS")()
	if a.v == o {
		a.v = n
		return true
	}
	return false
}

type AtomicPointer[T any] struct{ p *T }

func (a *AtomicPointer[T]) Load() *T   { defer atomEnter(a, "Load")(); return a.p }
func (a *AtomicPointer[T]) Store(p *T) { defer atomEnter(a, "Store")(); a.p = p }
func (a *AtomicPointer[T]) Swap(p *T) *T {
	defer atomEnter(a, "Swap")()
	o := a.p
	a.p = p
	return o
}
func (a *AtomicPointer[T]) CompareAndSwap(o, n *T) bool {
	defer atomEnter(a, "CAS")()
	if a.p == o {
		a.p = n
		return true
	}
	return false
}

// function-style atomics on plain variables
func atomLoad[T any](p *T) T     { defer atomEnter(p, "Load")(); return *p }
func atomStore[T any](p *T, v T) { defer atomEnter(p, "Store")(); *p = v }
func atomAdd[T int32 | int64 | uint32 | uint64 | uintptr](p *T, d T) T {
	defer atomEnter(p, "Add")()
	*p += d
	return *p
}
func atomSwap[T any](p *T, v T) T {
	defer atomEnter(p, "Swap")()
	o := *p
	*p = v
	return o
}
func atomCAS[T comparable](p *T, o, n T) bool {
	defer atomEnter(p, "CAS")()
	if *p == o {
		*p = n
		return true
	}
	return false
}

func LoadInt32(p *int32) int32                         { return atomLoad(p) }
func LoadInt64(p *int64) int64                         { return atomLoad(p) }
func LoadUint32(p *uint32) uint32                      { return atomLoad(p) }
func LoadUint64(p *uint64) uint64                      { return atomLoad(p) }
func StoreInt32(p *int32, v int32)                     { atomStore(p, v) }
func StoreInt64(p *int64, v int64)                     { atomStore(p, v) }
func StoreUint32(p *uint32, v uint32)                  { atomStore(p, v) }
func StoreUint64(p *uint64, v uint64)                  { atomStore(p, v) }
func AddInt32(p *int32, d int32) int32                 { return atomAdd(p, d) }
func AddInt64(p *int64, d int64) int64                 { return atomAdd(p, d) }
func AddUint32(p *uint32, d uint32) uint32             { return atomAdd(p, d) }
func AddUint64(p *uint64, d uint64) uint64             { return atomAdd(p, d) }
func SwapInt32(p *int32, v int32) int32                { return atomSwap(p, v) }
func SwapInt64(p *int64, v int64) int64                { return atomSwap(p, v) }
func SwapUint32(p *uint32, v uint32) uint32            { return atomSwap(p, v) }
func SwapUint64(p *uint64, v uint64) uint64            { return atomSwap(p, v) }
func CompareAndSwapInt32(p *int32, o, n int32) bool    { return atomCAS(p, o, n) }
func CompareAndSwapInt64(p *int64, o, n int64) bool    { return atomCAS(p, o, n) }
func CompareAndSwapUint32(p *uint32, o, n uint32) bool { return atomCAS(p, o, n) }
func CompareAndSwapUint64(p *uint64, o, n uint64) bool { return atomCAS(p, o, n) }

// ---- timers ------------------------------------------------------------------------------------

// Timer replaces time.Timer.
type Timer struct {
	C       chan time.Time
	fn      func()
	stopped bool
	fired   bool
	gen     int
}

func (t *Timer) arm(d time.Duration) {
	e := cur
	t.gen++
	gen := t.gen
	t.stopped, t.fired = false, false
	var s *chanState
	if t.fn == nil {
		s = e.chanOf(t.C)
	}
	e.timerSeq++
	e.timers = append(e.timers, timerEv{at: e.clock + int64(d), seq: e.timerSeq, fn: func() {
		if t.stopped || t.gen != gen {
			return
		}
		t.fired = true
		if t.fn != nil {
			e.spawn("AfterFunc", t.fn)
			return
		}
		if len(s.buf) < s.cap {
			s.buf = append(s.buf, Now())
			s.bufVC = append(s.bufVC, VC{})
		}
	}})
}

// NewTimer replaces time.NewTimer.
func NewTimer(d time.Duration) *Timer {
	t := &Timer{C: make(chan time.Time, 1)}
	if cur.aborted.Load() {
		return t
	}
	t.arm(d)
	return t
}

// AfterFunc replaces time.AfterFunc: f runs in its own thread when the timer fires.
func AfterFunc(d time.Duration, f func()) *Timer {
	t := &Timer{fn: f}
	if cur.aborted.Load() {
		return t
	}
	t.arm(d)
	return t
}

func (t *Timer) Stop() bool {
	if cur.aborted.Load() {
		return false
	}
	cur.point("timer.Stop", nil, -1)
	active := !t.stopped && !t.fired
	t.stopped = true
	return active
}

func (t *Timer) Reset(d time.Duration) bool {
	if cur.aborted.Load() {
		return false
	}
	cur.point("timer.Reset", nil, -1)
	active := !t.stopped && !t.fired
	t.arm(d)
	return active
}

// Since / Until replace time.Since / time.Until.
func Since(t time.Time) time.Duration { return Now().Sub(t) }
func Until(t time.Time) time.Duration { return t.Sub(Now()) }

func resetAtoms() { atoms = map[uintptr]*atomState{} }
