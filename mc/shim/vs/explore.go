package vs

import (
	"fmt"
	"time"
)

// Explorer enumerates every execution of a scenario body within a preemption bound: depth-first
// over choice sequences; switching away from a runnable, non-yielded thread (and the optional
// time-skip) costs one deviation, environment choices and forced switches are free.

type Stats struct {
	Executions  int64
	States      int64 // choice points visited (tree nodes)
	Transitions int64 // scheduling steps executed
	Pruned      int64 // subtrees cut by the state-key cache
	MaxDepth    int
	Capped      bool
	BoundDone   int // highest preemption bound completed (-1 none)
	Outcomes    map[string]int64
}

type Result struct {
	Exec    *Exec
	Choices []int
}

type Explorer struct {
	Opt      Options
	Bound    int   // preemption bound; <0 = unbounded
	Prune    bool  // state-key pruning (sound only with Bound < 0: a key does not record spent preemptions)
	MaxExecs int64 // cap (0 = none)
	Deadline time.Time
	Stats    Stats
	seen     map[uint64]bool
	// Check is called for every complete execution; it returns the outcome label (for the distinct
	// outcome count) and reports violations itself.
	Check func(e *Exec) string
}

type item struct {
	prefix []int
	sigs   []uint32
	spent  int // deviations used by the prefix
}

func (x *Explorer) Explore(body func()) {
	if x.Stats.Outcomes == nil {
		x.Stats.Outcomes = map[string]int64{}
	}
	if x.Prune {
		x.Opt.Keys = true
		x.seen = map[uint64]bool{}
	}
	stack := []item{{}}
	for len(stack) > 0 {
		it := stack[len(stack)-1]
		stack = stack[:len(stack)-1]
		if (x.MaxExecs > 0 && x.Stats.Executions >= x.MaxExecs) || (!x.Deadline.IsZero() && time.Now().After(x.Deadline)) {
			x.Stats.Capped = true
			return
		}
		e := Run(it.prefix, it.sigs, x.Opt, body)
		x.Stats.Executions++
		x.Stats.Transitions += int64(e.steps)
		if len(e.Points) > x.Stats.MaxDepth {
			x.Stats.MaxDepth = len(e.Points)
		}
		label := ""
		if e.Abort == "NONDETERMINISM" || e.Abort == "HANG" {
			label = e.Abort + ": " + e.AbortMsg
			x.Stats.Outcomes[label]++
			if x.Check != nil {
				x.Check(e)
			}
			return
		}
		if x.Check != nil {
			label = x.Check(e)
		}
		x.Stats.Outcomes[label]++

		// expand alternatives at every point beyond the prefix (deepest first on the stack so the
		// search is depth-first in canonical order)
		spent := it.spent
		sigs := make([]uint32, len(e.Points))
		for i, p := range e.Points {
			sigs[i] = p.Sig
		}
		var kids []item
		for i := len(it.prefix); i < len(e.Points); i++ {
			p := e.Points[i]
			x.Stats.States++
			if x.Prune && p.Kind == 't' && p.Key != 0 {
				if x.seen[p.Key] {
					// an identical state was fully expanded before: its futures are covered
					x.Stats.Pruned++
					break
				}
				x.seen[p.Key] = true
			}
			cost := 0
			if p.Kind == 't' && p.Preempt {
				cost = 1
			}
			if x.Bound >= 0 && spent+cost > x.Bound {
				continue
			}
			for alt := 1; alt < p.N; alt++ {
				pre := make([]int, i+1)
				copy(pre, e.Choices()[:i])
				pre[i] = alt
				kids = append(kids, item{prefix: pre, sigs: sigs[:i+1], spent: spent + cost})
			}
		}
		for k := len(kids) - 1; k >= 0; k-- {
			stack = append(stack, kids[k])
		}
	}
}

// Describe renders an execution for replay files and evidence samples.
func (e *Exec) Describe() map[string]any {
	return map[string]any{
		"choices": e.Choices(),
		"abort":   e.Abort,
		"detail":  e.AbortMsg,
		"log":     e.Log,
		"races":   e.Races,
		"trace":   e.Trace,
		"clock":   e.clock,
	}
}

func (s Stats) String() string {
	return fmt.Sprintf("executions=%d states=%d transitions=%d pruned=%d maxdepth=%d outcomes=%d capped=%v", s.Executions, s.States, s.Transitions, s.Pruned, s.MaxDepth, len(s.Outcomes), s.Capped)
}
