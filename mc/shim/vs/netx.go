package vs

// Further entry points of package net that a refactoring of the driver might reach for; all of
// them funnel into the same simulated sockets as ListenUDP / Dialer.Dial.

import (
	"errors"
	"net"
	"net/netip"
	"time"
)

// Dial replaces net.Dial.
func Dial(network, address string) (Conn, error) { return (&Dialer{}).Dial(network, address) }

// DialTimeout replaces net.DialTimeout.
func DialTimeout(network, address string, timeout time.Duration) (Conn, error) {
	return (&Dialer{Timeout: timeout}).Dial(network, address)
}

// DialUDP replaces net.DialUDP: a connected UDP socket.
func DialUDP(network string, laddr, raddr *net.UDPAddr) (*UDPConn, error) {
	if raddr == nil {
		return nil, &net.OpError{Op: "dial", Net: network, Err: errors.New("missing address")}
	}
	d := &Dialer{}
	if laddr != nil {
		d.LocalAddr = laddr
	}
	c, err := d.Dial(network, raddr.String())
	if err != nil {
		return nil, err
	}
	dc := c.(*dconn)
	return &UDPConn{s: dc.s, n: dc.n}, nil
}

// TCPConn is what DialTCP returns.
type TCPConn struct{ dconn }

func (c *TCPConn) SetNoDelay(bool) error                  { return nil }
func (c *TCPConn) SetKeepAlive(bool) error                { return nil }
func (c *TCPConn) SetKeepAlivePeriod(time.Duration) error { return nil }
func (c *TCPConn) SetLinger(int) error                    { return nil }
func (c *TCPConn) CloseWrite() error                      { return nil }
func (c *TCPConn) CloseRead() error                       { return nil }

// DialTCP replaces net.DialTCP.
func DialTCP(network string, laddr, raddr *net.TCPAddr) (*TCPConn, error) {
	if raddr == nil {
		return nil, &net.OpError{Op: "dial", Net: network, Err: errors.New("missing address")}
	}
	d := &Dialer{}
	if laddr != nil {
		d.LocalAddr = laddr
	}
	c, err := d.Dial(network, raddr.String())
	if err != nil {
		return nil, err
	}
	return &TCPConn{*c.(*dconn)}, nil
}

// ListenPacket replaces net.ListenPacket for UDP networks.
func ListenPacket(network, address string) (net.PacketConn, error) {
	if len(network) < 3 || network[:3] != "udp" {
		return nil, &net.OpError{Op: "listen", Net: network, Err: errors.New("vs: only udp networks are simulated")}
	}
	var laddr *net.UDPAddr
	if address != "" {
		ap, err := netip.ParseAddrPort(address)
		if err != nil {
			h, p := splitHostPort(address)
			ip := net.ParseIP(h)
			if h != "" && ip == nil {
				return nil, &net.OpError{Op: "listen", Net: network, Err: err}
			}
			laddr = &net.UDPAddr{IP: ip, Port: p}
		} else {
			laddr = net.UDPAddrFromAddrPort(ap)
		}
	}
	return ListenUDP(network, laddr)
}

func (c *UDPConn) RemoteAddr() net.Addr {
	if c.s.peer == "" {
		return nil
	}
	return udpAddr(c.s.peer)
}

// Read / Write: the connected-socket forms.
func (c *UDPConn) Read(b []byte) (int, error) {
	k, _, err := readUDP(c.n, c.s, b)
	return k, err
}

func (c *UDPConn) Write(b []byte) (int, error) {
	if c.s.peer == "" {
		return 0, &net.OpError{Op: "write", Net: "udp", Err: errors.New("destination address required")}
	}
	return writeUDP(c.n, c.s, b, c.s.peer)
}

func (c *UDPConn) ReadFrom(b []byte) (int, net.Addr, error) {
	k, a, err := readUDP(c.n, c.s, b)
	if a == nil {
		return k, nil, err
	}
	return k, a, err
}

func (c *UDPConn) WriteTo(b []byte, addr net.Addr) (int, error) {
	if addr == nil {
		return 0, &net.OpError{Op: "write", Net: "udp", Err: errors.New("missing address")}
	}
	return writeUDP(c.n, c.s, b, addr.String())
}

func (c *UDPConn) ReadFromUDPAddrPort(b []byte) (int, netip.AddrPort, error) {
	k, a, err := readUDP(c.n, c.s, b)
	if a == nil {
		return k, netip.AddrPort{}, err
	}
	return k, a.AddrPort(), err
}

func (c *UDPConn) WriteToUDPAddrPort(b []byte, addr netip.AddrPort) (int, error) {
	return writeUDP(c.n, c.s, b, addr.String())
}

func (c *UDPConn) SetReadBuffer(int) error  { return nil }
func (c *UDPConn) SetWriteBuffer(int) error { return nil }

// HoldPort makes another socket of the simulated host occupy proto/port (as a foreign program or
// another part of the application would); the returned function releases it.
func (n *Network) HoldPort(proto string, port int) (release func(), err error) {
	s, err := n.newSock(proto, net.IPv4zero, port, false)
	if err != nil {
		return nil, err
	}
	s.listening = true
	return func() { s.closed = true }, nil
}

// ---- the host's interface table -------------------------------------------------------------------
// What net.Interfaces / InterfaceAddrs / InterfaceByName report is part of the environment the
// library can read: under the model it is the simulated host's table (Network.Ifaces), not the
// machine's the check happens to run on.

type Interface struct {
	Index        int
	MTU          int
	Name         string
	HardwareAddr net.HardwareAddr
	Flags        net.Flags
	addrs        []net.Addr
}

func (i *Interface) Addrs() ([]net.Addr, error)          { return append([]net.Addr{}, i.addrs...), nil }
func (i *Interface) MulticastAddrs() ([]net.Addr, error) { return nil, nil }

// DefaultIfaces: loopback and one Ethernet interface on the subnet the simulated controllers live in.
func DefaultIfaces() []Interface {
	return []Interface{
		{Index: 1, MTU: 65536, Name: "lo", Flags: net.FlagUp | net.FlagLoopback | net.FlagRunning,
			addrs: []net.Addr{&net.IPNet{IP: net.IPv4(127, 0, 0, 1), Mask: net.CIDRMask(8, 32)}}},
		{Index: 2, MTU: 1500, Name: "eth0", HardwareAddr: net.HardwareAddr{0x02, 0x42, 0xc0, 0xa8, 0x01, 0x02}, Flags: net.FlagUp | net.FlagBroadcast | net.FlagMulticast | net.FlagRunning,
			addrs: []net.Addr{&net.IPNet{IP: net.IPv4(192, 168, 1, 2), Mask: net.CIDRMask(24, 32)}}},
	}
}

func ifaces() []Interface {
	if n := Net(); n != nil && n.Ifaces != nil {
		return n.Ifaces
	}
	return DefaultIfaces()
}

func Interfaces() ([]Interface, error) { return append([]Interface{}, ifaces()...), nil }

func InterfaceAddrs() ([]net.Addr, error) {
	out := []net.Addr{}
	for _, i := range ifaces() {
		out = append(out, i.addrs...)
	}
	return out, nil
}

func InterfaceByName(name string) (*Interface, error) {
	for _, i := range ifaces() {
		if i.Name == name {
			c := i
			return &c, nil
		}
	}
	return nil, &net.OpError{Op: "route", Net: "ip+net", Err: errNoSuchInterface}
}

func InterfaceByIndex(index int) (*Interface, error) {
	for _, i := range ifaces() {
		if i.Index == index {
			c := i
			return &c, nil
		}
	}
	return nil, &net.OpError{Op: "route", Net: "ip+net", Err: errNoSuchInterface}
}

var errNoSuchInterface = errorString("no such network interface")

type errorString string

func (e errorString) Error() string { return string(e) }
