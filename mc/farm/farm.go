// Package farm is the environment side of engine E1: simulated controllers that answer what the
// library sends on the simulated network. It only builds under the E1 overlay (package vs lives
// virtually inside the uhppote-core module).
package farm

import (
	"strings"
	"time"

	"github.com/uhppoted/uhppote-core/verifshim/vs"
)

type Reply struct {
	Delay       time.Duration
	Data        []byte
	Src         string // "" = the controller's own address
	Reset       bool   // TCP: reset the connection instead of sending data
	EOF         bool   // TCP: close the connection
	Unreachable bool   // connected UDP: ICMP port unreachable
}

type Controller struct {
	Addr    string // ip:port the controller listens on (UDP and TCP)
	TCP     string // fate of TCP connects: "accept" (default) | "refuse" | "blackhole"
	Respond func(proto string, request []byte, from string) []Reply
	Got     []vs.Packet // everything this controller received
}

// Farm implements vs.Environment.
type Farm struct {
	Controllers []*Controller
	Stray       []vs.Packet // packets nobody listens for
}

func isBroadcast(dst string) bool {
	host := dst[:strings.LastIndex(dst, ":")]
	return host == "255.255.255.255" || strings.HasSuffix(host, ".255")
}

func port(a string) string { return a[strings.LastIndex(a, ":")+1:] }

func (f *Farm) OnUDP(n *vs.Network, p vs.Packet) {
	hit := false
	for _, c := range f.Controllers {
		c := c
		if p.Dst == c.Addr || (isBroadcast(p.Dst) && port(p.Dst) == port(c.Addr)) {
			hit = true
			c.Got = append(c.Got, p)
			if c.Respond == nil {
				continue
			}
			for _, r := range c.Respond("udp", p.Data, p.Src) {
				r := r
				src := r.Src
				if src == "" {
					src = c.Addr
				}
				dst := p.Src
				// a socket bound to 0.0.0.0 is reached at the host's address; the model keys on the port
				vs.After(r.Delay, func() {
					if r.Unreachable {
						n.Unreachable(p.SrcSock)
						return
					}
					n.DeliverUDP(src, dst, r.Data)
				})
			}
		}
	}
	if !hit {
		f.Stray = append(f.Stray, p)
	}
}

func (f *Farm) find(dst string) *Controller {
	for _, c := range f.Controllers {
		if c.Addr == dst {
			return c
		}
	}
	return nil
}

func (f *Farm) OnTCPConnect(n *vs.Network, src, dst string) string {
	c := f.find(dst)
	if c == nil {
		f.Stray = append(f.Stray, vs.Packet{Proto: "tcp-connect", Src: src, Dst: dst})
		return "refuse"
	}
	if c.TCP == "" {
		return "accept"
	}
	return c.TCP
}

func (f *Farm) OnTCP(n *vs.Network, fd int, p vs.Packet) {
	c := f.find(p.Dst)
	if c == nil {
		return
	}
	c.Got = append(c.Got, p)
	if c.Respond == nil {
		return
	}
	for _, r := range c.Respond("tcp", p.Data, p.Src) {
		r := r
		vs.After(r.Delay, func() {
			switch {
			case r.Reset:
				n.CloseTCP(fd, true)
			case r.EOF:
				n.CloseTCP(fd, false)
			default:
				n.DeliverTCP(fd, r.Data)
			}
		})
	}
}
