package farm

import (
	"encoding/binary"
	"time"

	"verif/echo"
)

// EchoReply builds the reply datagram controller `serial` gives to req (nil if none).
func EchoReply(serial uint32, req []byte) []byte { return echo.EchoReply(serial, req) }

// Echo returns a controller that answers requests carrying its serial number (or serial 0:
// discovery) after delay(request).
func Echo(addr string, serial uint32, delay func(req []byte) time.Duration) *Controller {
	c := &Controller{Addr: addr}
	c.Respond = func(proto string, req []byte, from string) []Reply {
		if len(req) != 64 {
			return nil
		}
		s := binary.LittleEndian.Uint32(req[4:8])
		if s != serial && s != 0 {
			return nil
		}
		d := EchoReply(serial, req)
		if d == nil {
			return nil
		}
		return []Reply{{Delay: delay(req), Data: d}}
	}
	return c
}
