// rewrite instruments the current working tree of <repo>/uhppote for engine E1: it redirects the
// package's uses of net/time/sync/syscall onto the shim package `vs`, turns `go`, channel sends,
// receives and close into shim calls, and stamps reads/writes of local variables shared with
// goroutine closures for the happens-before race detector. Output: rewritten copies under <out>/
// plus <out>/overlay.json for `go build -overlay` (which also adds the shim package virtually
// inside the uhppote-core module). Anything it cannot virtualise aborts loudly (exit 2): an
// un-intercepted source of nondeterminism must never slip through.
package main

import (
	"bytes"
	"encoding/json"
	"flag"
	"fmt"
	"go/ast"
	"go/build"
	"go/parser"
	"go/printer"
	"go/token"
	"os"
	"path/filepath"
	"reflect"
	"sort"
	"strconv"
	"strings"
)

const shimImport = "github.com/uhppoted/uhppote-core/verifshim/vs"

// selector redirection tables: package -> name -> shim name ("" = leave as is: pure helper)
var redirect = map[string]map[string]string{
	"net": {
		"ListenUDP": "ListenUDP", "Dialer": "Dialer", "UDPConn": "UDPConn", "TCPConn": "TCPConn",
		"ListenConfig": "ListenConfig", "Dial": "Dial", "DialTimeout": "DialTimeout", "DialUDP": "DialUDP", "DialTCP": "DialTCP", "ListenPacket": "ListenPacket",
		// interfaces the simulated sockets satisfy
		"Conn": "", "PacketConn": "",
		// pure helpers and types
		"UDPAddr": "", "TCPAddr": "", "IP": "", "IPv4": "", "IPv4len": "", "IPv4bcast": "", "IPv4zero": "", "IPNet": "", "IPMask": "",
		"UDPAddrFromAddrPort": "", "TCPAddrFromAddrPort": "", "ParseIP": "", "HardwareAddr": "", "Addr": "", "Error": "", "OpError": "",
		"Interfaces": "Interfaces", "InterfaceAddrs": "InterfaceAddrs", "InterfaceByName": "InterfaceByName", "InterfaceByIndex": "InterfaceByIndex", "Interface": "Interface",
		"Flags": "", "FlagBroadcast": "", "FlagMulticast": "", "FlagPointToPoint": "", "FlagRunning": "", "FlagLoopback": "", "FlagUp": "", "JoinHostPort": "", "SplitHostPort": "", "ErrClosed": "",
		"ParseMAC": "", "ParseCIDR": "", "IPv4Mask": "", "CIDRMask": "", "IPv6len": "", "IPv6zero": "", "IPv6unspecified": "", "IPv6loopback": "", "AddrError": "", "ParseError": "", "InvalidAddrError": "",
	},
	"time": {
		"Now": "Now", "Sleep": "Sleep", "After": "TimeAfter", "NewTimer": "NewTimer", "AfterFunc": "AfterFunc", "Timer": "Timer", "Since": "Since", "Until": "Until",
		"Time": "", "Duration": "", "Nanosecond": "", "Microsecond": "", "Millisecond": "", "Second": "", "Minute": "", "Hour": "",
		"Local": "", "UTC": "", "Location": "", "Month": "", "Weekday": "", "ParseInLocation": "", "Parse": "", "Date": "", "Unix": "", "LoadLocation": "", "FixedZone": "",
		"Monday": "", "Tuesday": "", "Wednesday": "", "Thursday": "", "Friday": "", "Saturday": "", "Sunday": "",
		"January": "", "February": "", "March": "", "April": "", "May": "", "June": "", "July": "", "August": "", "September": "", "October": "", "November": "", "December": "",
		"RFC3339": "", "RFC3339Nano": "", "RFC1123": "", "RFC1123Z": "", "RFC822": "", "RFC822Z": "", "RFC850": "", "ANSIC": "", "UnixDate": "", "RubyDate": "", "Kitchen": "", "Layout": "",
		"Stamp": "", "StampMilli": "", "StampMicro": "", "StampNano": "", "DateTime": "", "DateOnly": "", "TimeOnly": "",
		"UnixMilli": "", "UnixMicro": "", "ParseDuration": "", "ParseError": "", "LoadLocationFromTZData": "",
	},
	"sync": {
		"Mutex": "Mutex", "RWMutex": "RWMutex", "WaitGroup": "WaitGroup", "Map": "Map", "Once": "Once", "Pool": "Pool",
	},
	"syscall": {
		"SetsockoptInt": "SetsockoptInt",
		"RawConn":       "", "SOL_SOCKET": "", "SO_REUSEADDR": "", "SO_REUSEPORT": "", "TCP_QUICKACK": "", "IPPROTO_TCP": "", "SO_BROADCAST": "", "Errno": "",
	},
	"sync/atomic": {
		"Bool": "AtomicBool", "Int32": "AtomicInt32", "Int64": "AtomicInt64", "Uint32": "AtomicUint32", "Uint64": "AtomicUint64", "Uintptr": "AtomicUintptr", "Value": "AtomicValue", "Pointer": "AtomicPointer",
		"LoadInt32": "LoadInt32", "LoadInt64": "LoadInt64", "LoadUint32": "LoadUint32", "LoadUint64": "LoadUint64",
		"StoreInt32": "StoreInt32", "StoreInt64": "StoreInt64", "StoreUint32": "StoreUint32", "StoreUint64": "StoreUint64",
		"AddInt32": "AddInt32", "AddInt64": "AddInt64", "AddUint32": "AddUint32", "AddUint64": "AddUint64",
		"SwapInt32": "SwapInt32", "SwapInt64": "SwapInt64", "SwapUint32": "SwapUint32", "SwapUint64": "SwapUint64",
		"CompareAndSwapInt32": "CompareAndSwapInt32", "CompareAndSwapInt64": "CompareAndSwapInt64", "CompareAndSwapUint32": "CompareAndSwapUint32", "CompareAndSwapUint64": "CompareAndSwapUint64",
	},
	"os": {
		"Signal": "", "Interrupt": "", "ErrDeadlineExceeded": "", "Kill": "", "ErrClosed": "", "ErrNotExist": "", "IsTimeout": "", "NewSyscallError": "", "SyscallError": "",
		"Getenv": "", "LookupEnv": "", "Stderr": "", "Stdout": "", "Args": "", "Hostname": "",
	},
	"context": {
		"Background": "", "TODO": "", "Context": "", "CancelFunc": "", "Canceled": "", "DeadlineExceeded": "", "WithValue": "", "Cause": "",
		"WithTimeout": "CtxWithTimeout", "WithDeadline": "CtxWithDeadline", "WithCancel": "CtxWithCancel",
	},
	"runtime": {
		"GOOS": "", "GOARCH": "", "Version": "", "NumCPU": "", "KeepAlive": "", "Caller": "", "Callers": "", "FuncForPC": "", "Stack": "", "Error": "",
		"Gosched": "Gosched", "NumGoroutine": "NumGoroutine",
	},
	"math/rand": {
		"Intn": "RandIntn", "Int": "RandInt", "Int31": "RandInt31", "Int31n": "RandInt31n", "Int63": "RandInt63", "Int63n": "RandInt63n",
		"Uint32": "RandUint32", "Uint64": "RandUint64", "Float64": "RandFloat64", "Float32": "RandFloat32", "Perm": "RandPerm", "Shuffle": "RandShuffle", "Seed": "RandSeed",
	},
	"math/rand/v2": {
		"IntN": "RandIntn", "Int": "RandInt", "Int32": "RandInt31", "Int32N": "RandInt31n", "Int64": "RandInt63", "Int64N": "RandInt63n",
		"Uint32": "RandUint32", "Uint64": "RandUint64", "Float64": "RandFloat64", "Float32": "RandFloat32", "Perm": "RandPerm", "Shuffle": "RandShuffle",
		"UintN": "RandUintn", "Uint32N": "RandUint32n", "Uint64N": "RandUint64n", "N": "RandN",
	},
}

// pureByPolicy decides names that the tables do not list: constants, error values, types and pure
// helpers of these packages neither block, nor read a clock, nor touch the network, so they stay
// real; anything that could (dialling, listening, resolving names, raw socket calls, timers,
// synchronisation objects without a model) still aborts the rewrite.
func pureByPolicy(path, name string) bool {
	hasPrefix := func(ps ...string) bool {
		for _, p := range ps {
			if strings.HasPrefix(name, p) {
				return true
			}
		}
		return false
	}
	switch path {
	case "syscall":
		// constants (SO_REUSEADDR, EADDRINUSE, AF_INET ...) and the Errno / Signal types
		if name == strings.ToUpper(name) || name == "Errno" || name == "Signal" || name == "RawConn" || name == "Conn" {
			return true
		}
		return false
	case "net":
		return !hasPrefix("Listen", "Dial", "Lookup", "File", "Interface", "Pipe", "Resolver", "DefaultResolver", "TCPListener", "UnixConn", "UnixListener", "IPConn", "Buffers")
	case "time":
		return !hasPrefix("Tick", "NewTicker", "Ticker")
	case "os":
		return !hasPrefix("Exit", "StartProcess", "FindProcess", "Pipe", "Getpid", "Getppid")
	case "runtime":
		return !hasPrefix("Goexit", "LockOSThread", "UnlockOSThread", "GC", "SetFinalizer", "AddCleanup", "GOMAXPROCS", "ReadMemStats")
	}
	return false
}

var fset = token.NewFileSet()

func fatal(format string, a ...any) {
	fmt.Fprintf(os.Stderr, "rewrite: "+format+"\n", a...)
	os.Exit(2)
}

func pos(n ast.Node) string {
	p := fset.Position(n.Pos())
	return fmt.Sprintf("%s:%d", filepath.Base(p.Filename), p.Line)
}

func shimSel(name string) ast.Expr {
	return &ast.SelectorExpr{X: ast.NewIdent("vs"), Sel: ast.NewIdent(name)}
}

func call(fn string, args ...ast.Expr) *ast.CallExpr {
	return &ast.CallExpr{Fun: shimSel(fn), Args: args}
}

func strLit(s string) ast.Expr {
	return &ast.BasicLit{Kind: token.STRING, Value: strconv.Quote(s)}
}

// walk rewrites the tree post-order: fn may return a replacement for each node.
func walk(n ast.Node, fn func(ast.Node) ast.Node) ast.Node {
	if n == nil || reflect.ValueOf(n).IsNil() {
		return n
	}
	v := reflect.ValueOf(n)
	if v.Kind() == reflect.Ptr && v.Elem().Kind() == reflect.Struct {
		s := v.Elem()
		for i := 0; i < s.NumField(); i++ {
			f := s.Field(i)
			if !f.CanSet() {
				continue
			}
			switch f.Kind() {
			case reflect.Interface, reflect.Ptr:
				if f.IsNil() {
					continue
				}
				if child, ok := f.Interface().(ast.Node); ok {
					if _, isObj := f.Interface().(*ast.Object); isObj {
						continue
					}
					if _, isScope := f.Interface().(*ast.Scope); isScope {
						continue
					}
					r := walk(child, fn)
					if r != child && reflect.TypeOf(r).AssignableTo(f.Type()) {
						f.Set(reflect.ValueOf(r))
					}
				}
			case reflect.Slice:
				for j := 0; j < f.Len(); j++ {
					el := f.Index(j)
					if el.Kind() != reflect.Interface && el.Kind() != reflect.Ptr {
						break
					}
					if el.IsNil() {
						continue
					}
					if child, ok := el.Interface().(ast.Node); ok {
						r := walk(child, fn)
						if r != child && reflect.TypeOf(r).AssignableTo(el.Type()) {
							el.Set(reflect.ValueOf(r))
						}
					}
				}
			}
		}
	}
	return fn(n)
}

// pkgVars: package-level variables of the uhppote package (name -> id), excluding sync objects.
var pkgVars = map[string]string{}

func collectPkgVars(files []*ast.File) {
	for _, f := range files {
		for _, d := range f.Decls {
			gd, ok := d.(*ast.GenDecl)
			if !ok || gd.Tok != token.VAR {
				continue
			}
			for _, sp := range gd.Specs {
				vs := sp.(*ast.ValueSpec)
				if se, ok := vs.Type.(*ast.SelectorExpr); ok {
					if id, ok := se.X.(*ast.Ident); ok && (id.Name == "sync" || id.Name == "atomic") {
						continue // synchronisation objects are accessed through their methods
					}
				}
				for _, n := range vs.Names {
					if n.Name != "_" {
						p := fset.Position(n.Pos())
						pkgVars[n.Name] = fmt.Sprintf("%s@%s", n.Name, filepath.Base(p.Filename))
					}
				}
			}
		}
	}
}

// pkgVarOf reports whether id refers to a package-level variable (declared in this or another
// file of the package) and is not shadowed by a local declaration.
func pkgVarOf(id *ast.Ident) (string, bool) {
	sid, ok := pkgVars[id.Name]
	if !ok {
		return "", false
	}
	if id.Obj == nil {
		return sid, true // unresolved in this file: package scope (another file)
	}
	if vsp, ok := id.Obj.Decl.(*ast.ValueSpec); ok && id.Obj.Kind == ast.Var {
		p := fset.Position(vsp.Pos())
		if pkgVars[id.Name] == fmt.Sprintf("%s@%s", id.Name, filepath.Base(p.Filename)) && isFileScope[vsp] {
			return sid, true
		}
	}
	return "", false
}

var isFileScope = map[*ast.ValueSpec]bool{}

// structFields: struct types declared in the package being rewritten -> their (direct) field names
var structFields = map[string]map[string]bool{}

func collectStructFields(files []*ast.File) {
	structFields = map[string]map[string]bool{}
	for _, f := range files {
		for _, d := range f.Decls {
			gd, ok := d.(*ast.GenDecl)
			if !ok || gd.Tok != token.TYPE {
				continue
			}
			for _, sp := range gd.Specs {
				ts := sp.(*ast.TypeSpec)
				st, ok := ts.Type.(*ast.StructType)
				if !ok || ts.TypeParams != nil {
					continue
				}
				fields := map[string]bool{}
				for _, fl := range st.Fields.List {
					// fields of synchronisation types are accessed through their own (shimmed) methods
					if se, ok := fl.Type.(*ast.SelectorExpr); ok {
						if id, ok := se.X.(*ast.Ident); ok && (id.Name == "sync" || id.Name == "atomic") {
							continue
						}
					}
					for _, n := range fl.Names {
						fields[n.Name] = true
					}
				}
				structFields[ts.Name.Name] = fields
			}
		}
	}
}

// ptrStructParam: for `name *T` (receiver or parameter) with T a struct of this package, the field set.
func ptrStructParam(f *ast.Field) map[string]bool {
	st, ok := f.Type.(*ast.StarExpr)
	if !ok {
		return nil
	}
	id, ok := st.X.(*ast.Ident)
	if !ok {
		return nil
	}
	return structFields[id.Name]
}

type fileCtx struct {
	file      *ast.File
	pkgNames  map[string]string // local name -> import path, for the redirected packages
	usedShim  bool
	shared    map[*ast.Object]string // shared-mutable locals -> id
	writes    map[*ast.Ident]bool    // identifiers in write position
	addrs     map[*ast.Ident]bool    // identifiers under unary &
	decls     map[*ast.Ident]bool    // declaring occurrences (never rewritten)
	pkgWrites map[*ast.Ident]bool    // occurrences of package-level variables in write position
	skip      map[*ast.Ident]bool    // identifiers that are not variable references (field names, declarations)
	// struct fields reached through a pointer receiver / parameter `p *T` (T a struct of the package):
	// the selector expressions p.f to stamp, and those in write position
	fieldSel   map[*ast.SelectorExpr]string
	fieldWrite map[*ast.SelectorExpr]bool
	// usesChannels: the file contains channel types or operations; constCtx: len/cap calls inside
	// constant declarations and array lengths (must stay builtins)
	usesChannels bool
	constCtx     map[*ast.CallExpr]bool
	chanRange    map[*ast.RangeStmt]bool
}

// analyse finds, per function containing a `go` closure, the closure's free variables declared in
// the enclosing function that are written after their declaration.
// root returns the identifier at the bottom of a selector/index chain (x in x.f[i].g).
// unslice strips slice expressions: x.f[2:] -> x.f
func unslice(e ast.Expr) ast.Expr {
	for {
		switch v := e.(type) {
		case *ast.SliceExpr:
			e = v.X
		case *ast.ParenExpr:
			e = v.X
		default:
			return e
		}
	}
}

func root(e ast.Expr) *ast.Ident {
	for {
		switch v := e.(type) {
		case *ast.Ident:
			return v
		case *ast.SelectorExpr:
			e = v.X
		case *ast.IndexExpr:
			e = v.X
		case *ast.ParenExpr:
			e = v.X
		default:
			return nil
		}
	}
}

func (c *fileCtx) analyse() {
	c.shared, c.writes, c.addrs, c.decls = map[*ast.Object]string{}, map[*ast.Ident]bool{}, map[*ast.Ident]bool{}, map[*ast.Ident]bool{}
	c.pkgWrites = map[*ast.Ident]bool{}
	c.skip = map[*ast.Ident]bool{}
	atomicArg := map[*ast.UnaryExpr]bool{}
	// package-level variables: writes are assignments whose left-hand side is rooted at the variable
	ast.Inspect(c.file, func(n ast.Node) bool {
		switch s := n.(type) {
		case *ast.GenDecl:
			if s.Tok == token.VAR {
				for _, sp := range s.Specs {
					for _, id := range sp.(*ast.ValueSpec).Names {
						c.skip[id] = true
					}
				}
			}
		case *ast.AssignStmt:
			if s.Tok != token.DEFINE {
				for _, l := range s.Lhs {
					if id := root(l); id != nil {
						if _, ok := pkgVarOf(id); ok {
							c.pkgWrites[id] = true
						}
					}
				}
			}
		case *ast.IncDecStmt:
			if id := root(s.X); id != nil {
				if _, ok := pkgVarOf(id); ok {
					c.pkgWrites[id] = true
				}
			}
		case *ast.CallExpr:
			// copy(x.f[i:], ...), delete(x.m, k), clear(x.s): the builtin writes through its first
			// argument - a write of the package-level variable the argument is rooted at
			if id, ok := s.Fun.(*ast.Ident); ok && id.Obj == nil && (id.Name == "copy" || id.Name == "delete" || id.Name == "clear") && len(s.Args) > 0 {
				if r := root(unslice(s.Args[0])); r != nil {
					if _, ok := pkgVarOf(r); ok {
						c.pkgWrites[r] = true
					}
				}
			}
			// atomic.AddInt32(&x, 1): the address is consumed by the atomic operation itself, which
			// orders the access; it is a (stamped) read of x, not an escaping write
			if se, ok := s.Fun.(*ast.SelectorExpr); ok {
				if id, ok := se.X.(*ast.Ident); ok && id.Obj == nil && c.pkgNames[id.Name] == "sync/atomic" {
					for _, a := range s.Args {
						if u, ok := a.(*ast.UnaryExpr); ok && u.Op == token.AND {
							atomicArg[u] = true
						}
					}
				}
			}
		case *ast.UnaryExpr:
			if s.Op == token.AND && !atomicArg[s] {
				if id := root(s.X); id != nil {
					if _, ok := pkgVarOf(id); ok {
						c.pkgWrites[id] = true // address taken: treated as a write
					}
				}
			}
		case *ast.SelectorExpr:
			c.skip[s.Sel] = true
		case *ast.KeyValueExpr:
			if id, ok := s.Key.(*ast.Ident); ok {
				c.skip[id] = true // struct literal field name (harmlessly also map keys that are identifiers)
			}
		}
		return true
	})

	c.chanRange = map[*ast.RangeStmt]bool{}
	ast.Inspect(c.file, func(n ast.Node) bool {
		if rs, ok := n.(*ast.RangeStmt); ok {
			if id, ok := rs.X.(*ast.Ident); ok && id.Obj != nil && declaredAsChannel(id) {
				c.chanRange[rs] = true
				c.usesChannels = true
			}
		}
		return true
	})
	c.constCtx = map[*ast.CallExpr]bool{}
	markConst := func(n ast.Node) {
		ast.Inspect(n, func(m ast.Node) bool {
			if ce, ok := m.(*ast.CallExpr); ok {
				c.constCtx[ce] = true
			}
			return true
		})
	}
	ast.Inspect(c.file, func(n ast.Node) bool {
		switch x := n.(type) {
		case *ast.ChanType, *ast.SendStmt, *ast.SelectStmt:
			c.usesChannels = true
		case *ast.UnaryExpr:
			if x.Op == token.ARROW {
				c.usesChannels = true
			}
		case *ast.GenDecl:
			if x.Tok == token.CONST {
				markConst(x)
			}
		case *ast.ArrayType:
			if x.Len != nil {
				markConst(x.Len)
			}
		}
		return true
	})
	c.fieldSel, c.fieldWrite = map[*ast.SelectorExpr]string{}, map[*ast.SelectorExpr]bool{}
	for _, d := range c.file.Decls {
		fd, ok := d.(*ast.FuncDecl)
		if !ok || fd.Body == nil {
			continue
		}
		objs := map[*ast.Object]map[string]bool{}
		typeOf := map[*ast.Object]string{}
		lists := []*ast.FieldList{fd.Recv, fd.Type.Params}
		for _, l := range lists {
			if l == nil {
				continue
			}
			for _, f := range l.List {
				if fields := ptrStructParam(f); fields != nil {
					for _, n := range f.Names {
						if n.Obj != nil {
							objs[n.Obj] = fields
							typeOf[n.Obj] = f.Type.(*ast.StarExpr).X.(*ast.Ident).Name
						}
					}
				}
			}
		}
		if len(objs) == 0 {
			continue
		}
		// the selector p.f at the bottom of a chain (p.f, p.f[i], p.f.g ...)
		var bottom func(e ast.Expr) *ast.SelectorExpr
		bottom = func(e ast.Expr) *ast.SelectorExpr {
			switch v := e.(type) {
			case *ast.SelectorExpr:
				if id, ok := v.X.(*ast.Ident); ok && id.Obj != nil && objs[id.Obj] != nil && objs[id.Obj][v.Sel.Name] {
					return v
				}
				return bottom(v.X)
			case *ast.IndexExpr:
				return bottom(v.X)
			case *ast.ParenExpr:
				return bottom(v.X)
			case *ast.StarExpr:
				return bottom(v.X)
			}
			return nil
		}
		ast.Inspect(fd.Body, func(n ast.Node) bool {
			switch x := n.(type) {
			case *ast.SelectorExpr:
				if id, ok := x.X.(*ast.Ident); ok && id.Obj != nil && objs[id.Obj] != nil && objs[id.Obj][x.Sel.Name] {
					p := fset.Position(x.Pos())
					c.fieldSel[x] = fmt.Sprintf("%s.%s@%s:%d", typeOf[id.Obj], x.Sel.Name, filepath.Base(p.Filename), p.Line)
				}
			case *ast.AssignStmt:
				if x.Tok != token.DEFINE {
					for _, l := range x.Lhs {
						if se := bottom(l); se != nil {
							c.fieldWrite[se] = true
						}
					}
				}
			case *ast.IncDecStmt:
				if se := bottom(x.X); se != nil {
					c.fieldWrite[se] = true
				}
			case *ast.CallExpr:
				if id, ok := x.Fun.(*ast.Ident); ok && id.Obj == nil && (id.Name == "copy" || id.Name == "delete" || id.Name == "clear") && len(x.Args) > 0 {
					if se := bottom(unslice(x.Args[0])); se != nil {
						c.fieldWrite[se] = true
					}
				}
			case *ast.UnaryExpr:
				if x.Op == token.AND {
					if se := bottom(x.X); se != nil {
						c.fieldWrite[se] = true
					}
				}
			}
			return true
		})
	}
	for _, d := range c.file.Decls {
		fd, ok := d.(*ast.FuncDecl)
		if !ok || fd.Body == nil {
			continue
		}
		// closures started by go statements
		var lits []*ast.FuncLit
		ast.Inspect(fd.Body, func(n ast.Node) bool {
			if g, ok := n.(*ast.GoStmt); ok {
				if fl, ok := g.Call.Fun.(*ast.FuncLit); ok {
					lits = append(lits, fl)
				}
			}
			return true
		})
		if len(lits) == 0 {
			continue
		}
		// objects written (other than by their declaration) anywhere in the function
		written := map[*ast.Object]bool{}
		markWrite := func(e ast.Expr) {
			if id, ok := e.(*ast.Ident); ok && id.Obj != nil && id.Obj.Kind == ast.Var {
				written[id.Obj] = true
				c.writes[id] = true
			}
		}
		ast.Inspect(fd, func(n ast.Node) bool {
			switch s := n.(type) {
			case *ast.AssignStmt:
				for _, l := range s.Lhs {
					if id, ok := l.(*ast.Ident); ok {
						if s.Tok == token.DEFINE && id.Obj != nil && id.Obj.Decl == s {
							// declared here — unless the object was declared by an earlier statement
							// (re-assignment inside a multi-value :=), which Obj.Decl tells apart
							c.decls[id] = true
							continue
						}
						markWrite(l)
					}
				}
			case *ast.IncDecStmt:
				markWrite(s.X)
			case *ast.RangeStmt:
				if s.Tok == token.ASSIGN {
					if s.Key != nil {
						markWrite(s.Key)
					}
					if s.Value != nil {
						markWrite(s.Value)
					}
				} else {
					if id, ok := s.Key.(*ast.Ident); ok {
						c.decls[id] = true
					}
					if id, ok := s.Value.(*ast.Ident); ok {
						c.decls[id] = true
					}
				}
			case *ast.UnaryExpr:
				if s.Op == token.AND {
					if id, ok := s.X.(*ast.Ident); ok && id.Obj != nil && id.Obj.Kind == ast.Var {
						written[id.Obj] = true
						c.addrs[id] = true
					}
				}
			case *ast.ValueSpec:
				for _, id := range s.Names {
					c.decls[id] = true
				}
			case *ast.Field:
				for _, id := range s.Names {
					c.decls[id] = true
				}
			}
			return true
		})
		for _, fl := range lits {
			ast.Inspect(fl.Body, func(n ast.Node) bool {
				id, ok := n.(*ast.Ident)
				if !ok || id.Obj == nil || id.Obj.Kind != ast.Var {
					return true
				}
				p := id.Obj.Pos()
				declaredInFunc := p >= fd.Pos() && p < fd.End()
				declaredInLit := p >= fl.Pos() && p < fl.End()
				if declaredInFunc && !declaredInLit && written[id.Obj] {
					if _, ok := c.shared[id.Obj]; !ok {
						dp := fset.Position(p)
						c.shared[id.Obj] = fmt.Sprintf("%s@%s:%d", id.Obj.Name, filepath.Base(dp.Filename), dp.Line)
					}
				}
				return true
			})
		}
	}
}

func hasBlockingCall(e ast.Expr) bool {
	found := false
	ast.Inspect(e, func(n ast.Node) bool {
		if c, ok := n.(*ast.CallExpr); ok {
			if id, ok := c.Fun.(*ast.Ident); ok {
				switch id.Name {
				case "append", "len", "cap", "make", "new", "copy", "string", "byte", "int", "uint8", "uint16", "uint32", "uint64", "int64", "bool", "error":
					return true
				}
			}
			if se, ok := c.Fun.(*ast.SelectorExpr); ok {
				if id, ok := se.X.(*ast.Ident); ok && id.Name == "vs" && (se.Sel.Name == "R" || se.Sel.Name == "W") {
					return true
				}
			}
			switch c.Fun.(type) {
			case *ast.ArrayType, *ast.MapType, *ast.ChanType, *ast.InterfaceType, *ast.StructType:
				return true // a conversion to a type literal ([]byte(nil)): not a call at all
			}
			found = true
		}
		if u, ok := n.(*ast.UnaryExpr); ok && u.Op == token.ARROW {
			found = true
		}
		return true
	})
	return found
}

func (c *fileCtx) rewrite() {
	tmp := 0
	out := walk(c.file, func(n ast.Node) ast.Node {
		switch x := n.(type) {
		case *ast.SelectStmt:
			c.usedShim = true
			return c.rewriteSelect(x, &tmp)

		case *ast.SelectorExpr:
			if sid, ok := c.fieldSel[x]; ok {
				c.usedShim = true
				addr := &ast.UnaryExpr{Op: token.AND, X: x}
				if c.fieldWrite[x] {
					return &ast.ParenExpr{X: &ast.StarExpr{X: call("W", addr, strLit(sid+" (written)"))}}
				}
				return &ast.ParenExpr{X: &ast.StarExpr{X: call("R", addr, strLit(sid+" (read)"))}}
			}
			id, ok := x.X.(*ast.Ident)
			if !ok || id.Obj != nil { // a local object shadows the package name
				return n
			}
			path, ok := c.pkgNames[id.Name]
			if !ok {
				return n
			}
			tab := redirect[path]
			to, known := tab[x.Sel.Name]
			if !known && pureByPolicy(path, x.Sel.Name) {
				to, known = "", true
			}
			if !known {
				fatal("unsupported API: %s.%s at %s (not in the redirection tables)", path, x.Sel.Name, pos(x))
			}
			if to == "" {
				return n
			}
			c.usedShim = true
			return shimSel(to)

		case *ast.GoStmt:
			c.usedShim = true
			if fl, ok := x.Call.Fun.(*ast.FuncLit); ok && len(x.Call.Args) == 0 {
				return &ast.ExprStmt{X: call("Go", fl)}
			}
			// go f(a, b): evaluate the function value and arguments now, run the call in the thread
			blk := &ast.BlockStmt{}
			args := []ast.Expr{}
			for _, a := range x.Call.Args {
				tmp++
				name := fmt.Sprintf("vsarg%d", tmp)
				blk.List = append(blk.List, &ast.AssignStmt{Lhs: []ast.Expr{ast.NewIdent(name)}, Tok: token.DEFINE, Rhs: []ast.Expr{a}})
				args = append(args, ast.NewIdent(name))
			}
			inner := &ast.CallExpr{Fun: x.Call.Fun, Args: args, Ellipsis: x.Call.Ellipsis}
			fl := &ast.FuncLit{Type: &ast.FuncType{Params: &ast.FieldList{}}, Body: &ast.BlockStmt{List: []ast.Stmt{&ast.ExprStmt{X: inner}}}}
			blk.List = append(blk.List, &ast.ExprStmt{X: call("Go", fl)})
			return blk

		case *ast.SendStmt:
			c.usedShim = true
			return &ast.ExprStmt{X: call("Send", x.Chan, x.Value)}

		case *ast.UnaryExpr:
			if x.Op == token.ARROW {
				c.usedShim = true
				return call("Recv", x.X)
			}
			if x.Op == token.AND {
				if id, ok := x.X.(*ast.Ident); ok && c.addrs[id] {
					if sid, ok := c.shared[id.Obj]; ok {
						c.usedShim = true
						return call("W", x, strLit(sid+"(&)"))
					}
				}
			}

		case *ast.AssignStmt:
			// v, ok := <-ch   (the receive was already turned into vs.Recv by the post-order walk)
			if len(x.Lhs) == 2 && len(x.Rhs) == 1 {
				if ce, ok := x.Rhs[0].(*ast.CallExpr); ok {
					if se, ok := ce.Fun.(*ast.SelectorExpr); ok {
						if id, ok := se.X.(*ast.Ident); ok && id.Name == "vs" && se.Sel.Name == "Recv" {
							se.Sel = ast.NewIdent("Recv2")
						}
					}
				}
			}
			// shared-variable writes whose right-hand side may block: stamp after evaluation
			for i, l := range x.Lhs {
				se, ok := l.(*ast.StarExpr)
				if !ok {
					continue
				}
				ce, ok := se.X.(*ast.CallExpr)
				if !ok {
					continue
				}
				if s, ok := ce.Fun.(*ast.SelectorExpr); !ok || s.Sel.Name != "W" {
					continue
				}
				if len(x.Lhs) == len(x.Rhs) && hasBlockingCall(x.Rhs[i]) {
					fatal("unsupported: assignment to goroutine-shared variable from a call at %s (stamp ordering)", pos(x))
				}
			}

		case *ast.CallExpr:
			if id, ok := x.Fun.(*ast.Ident); ok && id.Name == "close" && id.Obj == nil && len(x.Args) == 1 {
				c.usedShim = true
				return call("Close", x.Args[0])
			}
			// len(ch) / cap(ch): in files that use channels every len/cap goes through the shim (it
			// cannot be told syntactically which argument is a channel); constant contexts excepted
			if id, ok := x.Fun.(*ast.Ident); ok && (id.Name == "len" || id.Name == "cap") && id.Obj == nil && len(x.Args) == 1 && c.usesChannels && !c.constCtx[x] {
				if _, isLit := x.Args[0].(*ast.BasicLit); !isLit {
					c.usedShim = true
					return call(map[string]string{"len": "Len", "cap": "Cap"}[id.Name], x.Args[0])
				}
			}

		case *ast.RangeStmt:
			// range over a channel: recognised when the operand is an identifier whose declaration
			// shows a channel (make(chan T...), a parameter / variable of channel type); rewritten to
			//     for { v, ok := vs.Recv2(ch); if !ok { break }; body }
			// Any other range over a channel cannot be told apart without type information; the
			// shimmed channels are never operated on directly, so it would hang: the watchdog in
			// vs.Run turns that into a machinery error.
			if c.chanRange[x] {
				c.usedShim = true
				tmp++
				okName := fmt.Sprintf("vsok%d", tmp)
				var val ast.Expr = ast.NewIdent("_")
				if x.Key != nil {
					val = x.Key
				}
				tok := token.DEFINE
				pre := []ast.Stmt{}
				if x.Tok == token.ASSIGN {
					tok = token.ASSIGN
					pre = append(pre, &ast.DeclStmt{Decl: &ast.GenDecl{Tok: token.VAR, Specs: []ast.Spec{&ast.ValueSpec{Names: []*ast.Ident{ast.NewIdent(okName)}, Type: ast.NewIdent("bool")}}}})
				}
				recv := &ast.AssignStmt{Lhs: []ast.Expr{val, ast.NewIdent(okName)}, Tok: tok, Rhs: []ast.Expr{call("Recv2", x.X)}}
				brk := &ast.IfStmt{Cond: &ast.UnaryExpr{Op: token.NOT, X: ast.NewIdent(okName)}, Body: &ast.BlockStmt{List: []ast.Stmt{&ast.BranchStmt{Tok: token.BREAK}}}}
				body := append(append(pre, recv, brk), x.Body.List...)
				return &ast.ForStmt{For: x.For, Body: &ast.BlockStmt{Lbrace: x.Body.Lbrace, List: body, Rbrace: x.Body.Rbrace}}
			}

		case *ast.Ident:
			if !c.skip[x] && !c.decls[x] {
				if sid, ok := pkgVarOf(x); ok {
					c.usedShim = true
					p := fset.Position(x.Pos())
					at := fmt.Sprintf("%s:%d", filepath.Base(p.Filename), p.Line)
					addr := &ast.UnaryExpr{Op: token.AND, X: &ast.Ident{Name: x.Name, NamePos: x.NamePos}}
					if c.pkgWrites[x] {
						return &ast.ParenExpr{X: &ast.StarExpr{X: call("W", addr, strLit(sid+" written at "+at))}}
					}
					return &ast.ParenExpr{X: &ast.StarExpr{X: call("R", addr, strLit(sid+" read at "+at))}}
				}
			}
			if x.Obj == nil || c.decls[x] {
				return n
			}
			sid, ok := c.shared[x.Obj]
			if !ok {
				return n
			}
			if c.addrs[x] {
				return n // handled at the enclosing &x
			}
			c.usedShim = true
			p := fset.Position(x.Pos())
			at := fmt.Sprintf("%s:%d", filepath.Base(p.Filename), p.Line)
			addr := &ast.UnaryExpr{Op: token.AND, X: &ast.Ident{Name: x.Name, NamePos: x.NamePos}}
			if c.writes[x] {
				return &ast.StarExpr{X: call("W", addr, strLit(sid+" written at "+at))}
			}
			return &ast.ParenExpr{X: &ast.StarExpr{X: call("R", addr, strLit(sid+" read at "+at))}}
		}
		return n
	})
	c.file = out.(*ast.File)
}

// isShimCall matches a call vs.<name>(...) produced by the post-order rewrite.
func isShimCall(e ast.Expr, name string) (*ast.CallExpr, bool) {
	ce, ok := e.(*ast.CallExpr)
	if !ok {
		return nil, false
	}
	se, ok := ce.Fun.(*ast.SelectorExpr)
	if !ok {
		return nil, false
	}
	id, ok := se.X.(*ast.Ident)
	if !ok || id.Name != "vs" || se.Sel.Name != name {
		return nil, false
	}
	return ce, true
}

// rewriteSelect turns a select statement (whose communication clauses have already been rewritten
// into vs.Recv / vs.Recv2 / vs.Send calls by the post-order walk) into
//
//	{ vssN := vs.NewSelect(hasDefault); vscK := <chan>; vs.SelRecv(vssN, vscK) ...; switch vssN.Wait() { case K: v := vs.Take(vssN, vscK); body } }
func (c *fileCtx) rewriteSelect(x *ast.SelectStmt, tmp *int) ast.Stmt {
	*tmp++
	sel := fmt.Sprintf("vssel%d", *tmp)
	blk := &ast.BlockStmt{}
	sw := &ast.SwitchStmt{Body: &ast.BlockStmt{}}
	hasDefault := false
	var reg []ast.Stmt
	for k, cl := range x.Body.List {
		cc := cl.(*ast.CommClause)
		clause := &ast.CaseClause{Body: cc.Body}
		if cc.Comm == nil {
			hasDefault = true
			clause.List = nil // default
			sw.Body.List = append(sw.Body.List, clause)
			continue
		}
		clause.List = []ast.Expr{&ast.BasicLit{Kind: token.INT, Value: fmt.Sprint(k)}}
		ch := fmt.Sprintf("vsc%d_%d", *tmp, k)
		switch st := cc.Comm.(type) {
		case *ast.ExprStmt:
			if ce, ok := isShimCall(st.X, "Recv"); ok {
				reg = append(reg, &ast.AssignStmt{Lhs: []ast.Expr{ast.NewIdent(ch)}, Tok: token.DEFINE, Rhs: []ast.Expr{ce.Args[0]}},
					&ast.ExprStmt{X: call("SelRecv", ast.NewIdent(sel), ast.NewIdent(ch))})
			} else if ce, ok := isShimCall(st.X, "Send"); ok {
				val := fmt.Sprintf("vsv%d_%d", *tmp, k)
				reg = append(reg, &ast.AssignStmt{Lhs: []ast.Expr{ast.NewIdent(ch)}, Tok: token.DEFINE, Rhs: []ast.Expr{ce.Args[0]}},
					&ast.AssignStmt{Lhs: []ast.Expr{ast.NewIdent(val)}, Tok: token.DEFINE, Rhs: []ast.Expr{ce.Args[1]}},
					&ast.ExprStmt{X: call("SelSend", ast.NewIdent(sel), ast.NewIdent(ch), ast.NewIdent(val))})
			} else {
				fatal("unsupported select communication at %s", pos(cc))
			}
		case *ast.AssignStmt:
			name := "Take"
			ce, ok := isShimCall(st.Rhs[0], "Recv")
			if !ok {
				ce, ok = isShimCall(st.Rhs[0], "Recv2")
				name = "Take2"
			}
			if !ok || len(st.Rhs) != 1 {
				fatal("unsupported select communication at %s", pos(cc))
			}
			reg = append(reg, &ast.AssignStmt{Lhs: []ast.Expr{ast.NewIdent(ch)}, Tok: token.DEFINE, Rhs: []ast.Expr{ce.Args[0]}},
				&ast.ExprStmt{X: call("SelRecv", ast.NewIdent(sel), ast.NewIdent(ch))})
			take := &ast.AssignStmt{Lhs: st.Lhs, Tok: st.Tok, Rhs: []ast.Expr{call(name, ast.NewIdent(sel), ast.NewIdent(ch))}}
			clause.Body = append([]ast.Stmt{take}, clause.Body...)
			// a received value that the body never uses would be "declared and not used"
			if st.Tok == token.DEFINE {
				for _, l := range st.Lhs {
					if id, ok := l.(*ast.Ident); ok && id.Name != "_" {
						clause.Body = append(clause.Body[:1], append([]ast.Stmt{&ast.AssignStmt{Lhs: []ast.Expr{ast.NewIdent("_")}, Tok: token.ASSIGN, Rhs: []ast.Expr{ast.NewIdent(id.Name)}}}, clause.Body[1:]...)...)
					}
				}
			}
		default:
			fatal("unsupported select communication at %s", pos(cc))
		}
		sw.Body.List = append(sw.Body.List, clause)
	}
	blk.List = append(blk.List, &ast.AssignStmt{Lhs: []ast.Expr{ast.NewIdent(sel)}, Tok: token.DEFINE,
		Rhs: []ast.Expr{call("NewSelect", ast.NewIdent(fmt.Sprint(hasDefault)))}})
	blk.List = append(blk.List, reg...)
	sw.Tag = &ast.CallExpr{Fun: &ast.SelectorExpr{X: ast.NewIdent(sel), Sel: ast.NewIdent("Wait")}}
	blk.List = append(blk.List, sw)
	return blk
}

// fixImports adds the shim import and drops imports that are no longer referenced.
func (c *fileCtx) fixImports() {
	used := map[string]bool{}
	ast.Inspect(c.file, func(n ast.Node) bool {
		if se, ok := n.(*ast.SelectorExpr); ok {
			if id, ok := se.X.(*ast.Ident); ok && id.Obj == nil {
				used[id.Name] = true
			}
		}
		return true
	})
	for _, d := range c.file.Decls {
		gd, ok := d.(*ast.GenDecl)
		if !ok || gd.Tok != token.IMPORT {
			continue
		}
		specs := []ast.Spec{}
		for _, s := range gd.Specs {
			is := s.(*ast.ImportSpec)
			path, _ := strconv.Unquote(is.Path.Value)
			name := filepath.Base(path)
			if len(name) >= 2 && name[0] == 'v' && name[1] >= '0' && name[1] <= '9' {
				name = filepath.Base(filepath.Dir(path))
			}
			if is.Name != nil {
				name = is.Name.Name
			}
			if _, tracked := redirect[path]; tracked && !used[name] {
				continue
			}
			specs = append(specs, s)
		}
		if c.usedShim {
			specs = append(specs, &ast.ImportSpec{Name: ast.NewIdent("vs"), Path: &ast.BasicLit{Kind: token.STRING, Value: strconv.Quote(shimImport)}})
			c.usedShim = false
		}
		gd.Specs = specs
		if gd.Lparen == token.NoPos {
			gd.Lparen = gd.Pos()
			gd.Rparen = gd.End()
		}
	}
}

// selfSynchronised drops package-level variables that are locked through their own methods
// (v.Lock(), v.RLock() ...: a struct embedding its mutex, or a pointer to one). Without type
// information the rewriter cannot separate the fields such a lock protects from the lock itself,
// so these variables are left to the free-running -race pass rather than risk a false alarm.
func selfSynchronised(files []*ast.File) []string {
	dropped := []string{}
	for _, f := range files {
		ast.Inspect(f, func(n ast.Node) bool {
			ce, ok := n.(*ast.CallExpr)
			if !ok {
				return true
			}
			se, ok := ce.Fun.(*ast.SelectorExpr)
			if !ok {
				return true
			}
			switch se.Sel.Name {
			case "Lock", "Unlock", "RLock", "RUnlock", "TryLock", "TryRLock":
			default:
				return true
			}
			if id := root(se.X); id != nil {
				if _, ok := pkgVars[id.Name]; ok {
					delete(pkgVars, id.Name)
					dropped = append(dropped, id.Name)
				}
			}
			return true
		})
	}
	return dropped
}

// packages lists the directories of the module (relative to its root) that hold non-test Go files.
func packages(repo string) []string {
	dirs := []string{}
	filepath.WalkDir(repo, func(path string, d os.DirEntry, err error) error {
		if err != nil || !d.IsDir() {
			return nil
		}
		name := d.Name()
		if path != repo && (strings.HasPrefix(name, ".") || strings.HasPrefix(name, "_") || name == "testdata" || name == "vendor" || name == "verifshim") {
			return filepath.SkipDir
		}
		if path != repo {
			if _, err := os.Stat(filepath.Join(path, "go.mod")); err == nil {
				return filepath.SkipDir // nested module
			}
		}
		if ents, err := os.ReadDir(path); err == nil {
			for _, e := range ents {
				if !e.IsDir() && strings.HasSuffix(e.Name(), ".go") && !strings.HasSuffix(e.Name(), "_test.go") {
					rel, _ := filepath.Rel(repo, path)
					dirs = append(dirs, rel)
					break
				}
			}
		}
		return nil
	})
	sort.Strings(dirs)
	return dirs
}

func main() {
	repo := flag.String("repo", "/repo", "uhppote-core working tree")
	shim := flag.String("shim", "/verif/mc/shim", "shim sources")
	out := flag.String("out", "", "output directory")
	flag.Parse()
	if *out == "" {
		fatal("-out required")
	}
	os.MkdirAll(*out, 0o755)
	overlay := map[string]string{}
	report := []string{}
	for _, rel := range packages(*repo) {
		report = append(report, rewritePackage(*repo, rel, *out, overlay)...)
	}

	// shim package, virtually inside the module
	shimFiles, _ := filepath.Glob(filepath.Join(*shim, "vs", "*.go"))
	for _, s := range shimFiles {
		overlay[filepath.Join(*repo, "verifshim", "vs", filepath.Base(s))] = s
	}
	b, _ := json.MarshalIndent(map[string]any{"Replace": overlay}, "", " ")
	if err := os.WriteFile(filepath.Join(*out, "overlay.json"), b, 0o644); err != nil {
		fatal("%v", err)
	}
	for _, r := range report {
		fmt.Println(r)
	}
}

// rewritePackage instruments one package directory of the module.
func rewritePackage(repo, rel, out string, overlay map[string]string) []string {
	dir := filepath.Join(repo, rel)
	outdir := filepath.Join(out, strings.NewReplacer("/", "_", ".", "_").Replace(rel))
	if rel == "." {
		outdir = filepath.Join(out, "_root")
	}
	os.MkdirAll(outdir, 0o755)
	entries, err := os.ReadDir(dir)
	if err != nil {
		fatal("%v", err)
	}
	ctx := build.Default
	ctx.GOOS, ctx.GOARCH = "linux", "amd64"
	ctx.BuildTags = []string{"verif"}
	report := []string{}
	pkgVars = map[string]string{}
	isFileScope = map[*ast.ValueSpec]bool{}
	// first pass: package-level variables of the whole package
	{
		var all []*ast.File
		for _, ent := range entries {
			name := ent.Name()
			if ent.IsDir() || !strings.HasSuffix(name, ".go") || strings.HasSuffix(name, "_test.go") {
				continue
			}
			if ok, err := ctx.MatchFile(dir, name); err != nil || !ok {
				continue
			}
			if f, err := parser.ParseFile(fset, filepath.Join(dir, name), nil, parser.SkipObjectResolution); err == nil {
				all = append(all, f)
			}
		}
		collectPkgVars(all)
		collectStructFields(all)
		if dropped := selfSynchronised(all); len(dropped) > 0 {
			sort.Strings(dropped)
			report = append(report, fmt.Sprintf("%s: self-synchronised package variables left to the -race pass: %v", rel, dropped))
		}
	}
	for _, ent := range entries {
		name := ent.Name()
		if ent.IsDir() || !strings.HasSuffix(name, ".go") || strings.HasSuffix(name, "_test.go") {
			continue
		}
		if ok, err := ctx.MatchFile(dir, name); err != nil || !ok {
			continue
		}
		path := filepath.Join(dir, name)
		f, err := parser.ParseFile(fset, path, nil, parser.ParseComments)
		if err != nil {
			fatal("parse %s: %v", path, err)
		}
		for _, d := range f.Decls {
			if gd, ok := d.(*ast.GenDecl); ok && gd.Tok == token.VAR {
				for _, sp := range gd.Specs {
					isFileScope[sp.(*ast.ValueSpec)] = true
				}
			}
		}
		c := &fileCtx{file: f, pkgNames: map[string]string{}}
		for _, is := range f.Imports {
			p, _ := strconv.Unquote(is.Path.Value)
			if _, ok := redirect[p]; ok {
				n := filepath.Base(p)
				if len(n) >= 2 && n[0] == 'v' && n[1] >= '0' && n[1] <= '9' {
					n = filepath.Base(filepath.Dir(p)) // math/rand/v2 is package rand
				}
				if is.Name != nil {
					n = is.Name.Name
				}
				c.pkgNames[n] = p
			}
			if p == "os/signal" || p == "crypto/rand" || p == "os/exec" {
				fatal("unsupported API: package %s imported by %s", p, name)
			}
		}
		c.analyse()
		ids := []string{}
		for _, id := range c.shared {
			ids = append(ids, id)
		}
		sort.Strings(ids)
		c.rewrite()
		needShim := c.usedShim
		c.fixImports()
		var buf bytes.Buffer
		f.Comments = nil // comment positions no longer match the rewritten tree
		if err := (&printer.Config{Mode: printer.UseSpaces | printer.TabIndent, Tabwidth: 8}).Fprint(&buf, fset, c.file); err != nil {
			fatal("print %s: %v", name, err)
		}
		if !needShim {
			continue // file untouched
		}
		dst := filepath.Join(outdir, name)
		// keep build constraints (comments are not printed)
		if src, err := os.ReadFile(path); err == nil {
			for _, line := range strings.Split(string(src), "\n") {
				if strings.HasPrefix(line, "package ") {
					break
				}
				if strings.HasPrefix(line, "//go:build") {
					buf = *bytes.NewBuffer(append([]byte(line+"\n\n"), buf.Bytes()...))
				}
			}
		}
		if err := os.WriteFile(dst, buf.Bytes(), 0o644); err != nil {
			fatal("%v", err)
		}
		overlay[path] = dst
		report = append(report, fmt.Sprintf("%s/%s: shared=%v", rel, name, ids))
	}

	return report
}

// declaredAsChannel: does the declaration of this identifier show, syntactically, a channel?
func declaredAsChannel(id *ast.Ident) bool {
	isMakeChan := func(e ast.Expr) bool {
		ce, ok := e.(*ast.CallExpr)
		if !ok || len(ce.Args) == 0 {
			return false
		}
		f, ok := ce.Fun.(*ast.Ident)
		if !ok || f.Name != "make" || f.Obj != nil {
			return false
		}
		_, ok = ce.Args[0].(*ast.ChanType)
		return ok
	}
	switch d := id.Obj.Decl.(type) {
	case *ast.Field:
		_, ok := d.Type.(*ast.ChanType)
		return ok
	case *ast.ValueSpec:
		if _, ok := d.Type.(*ast.ChanType); ok {
			return true
		}
		for i, n := range d.Names {
			if n.Name == id.Name && len(d.Values) == len(d.Names) {
				return isMakeChan(d.Values[i])
			}
		}
	case *ast.AssignStmt:
		for i, l := range d.Lhs {
			if n, ok := l.(*ast.Ident); ok && n.Name == id.Name && len(d.Lhs) == len(d.Rhs) {
				return isMakeChan(d.Rhs[i])
			}
		}
	}
	return false
}
