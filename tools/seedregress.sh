#!/bin/bash
# usage: seedregress.sh [pattern]   — re-runs, for every recorded seeded change whose name matches the
# pattern (default: all), the quick tier of each check that reported it before, and lists any seed
# that no check reports any more. Writes nothing to the seeds' meta.json.
set -u
PAT=${1:-.}
export GOFLAGS=-mod=mod GOPROXY=off GOSUMDB=off GOTOOLCHAIN=local
export VERIF_SCRATCH_EVIDENCE=/tmp/seed-evidence   # runs against a changed library never touch /verif/evidence
cd /verif
lost=0
for d in seeded/*/; do
  name=$(basename $d)
  echo "$name" | grep -Eq "$PAT" || continue
  checks=$(python3 - "$d/meta.json" <<'PY'
import json,sys
m=json.load(open(sys.argv[1]))
ids=[]
for k in ('checks_run','checks_rerun'):
    for c in m.get(k,[]) or []:
        if c.get('exit')==1 and c['check'] not in ids: ids.append(c['check'])
print(' '.join(ids))
PY
)
  [ -z "$checks" ] && { echo "?? $name: no check recorded as catching it"; continue; }
  WT=/tmp/sg-$$
  git -C /repo worktree remove --force $WT 2>/dev/null
  git -C /repo worktree add --detach $WT -q || exit 2
  if ! git -C $WT apply /verif/$d/patch.diff 2>/dev/null; then
    if ! (git -C $WT checkout -q --detach 527b99c && git -C $WT apply /verif/$d/patch.diff 2>/dev/null) && ! (git -C $WT checkout -q -- . ; git -C $WT checkout -q --detach 6c0073a && git -C $WT apply /verif/$d/patch.diff 2>/dev/null); then echo "!! $name: patch no longer applies"; git -C /repo worktree remove --force $WT; continue; fi
  fi
  caught=""
  for id in $checks; do
    VERIF_REPO=$WT ./check $id --tier quick >/dev/null 2>&1; code=$?
    [ $code = 1 ] && { caught=$id; break; }
  done
  git -C /repo worktree remove --force $WT
  if [ -n "$caught" ]; then echo "ok $name ($caught)"; else echo "LOST $name (was: $checks)"; lost=$((lost+1)); fi
done
echo "lost=$lost"
