#!/usr/bin/env python3
# Generates /verif/MANIFEST.json from the table below and validates it against the schema.
import json, sys, os
CHECKS = json.load(open('/verif/tools/checks.json'))
m = {
 "version": 1,
 "setup_cmd": "/verif/tools/setup.sh",
 "hooks": {
  "guard": "verif",
  "enable": "go build -tags verif (harnesses wrap the transport driver through uhppote.VerifSetDriver; `-tags 'verif verifcard'` additionally exports the card-number predicate). Engine-E1 checks (and C14, for its clock-independence family) additionally regenerate scheduler instrumentation of every package of /repo from the working tree on every run and apply it with `go build -overlay` (nothing of that is committed to /repo). Harnesses with an ARCH386 marker are built a second time with GOARCH=386, and once more per custom build tag found in the library's own //go:build lines (none on the pinned tree).",
  "baseline_off_cmd": "cd /repo && GOFLAGS=-mod=mod GOPROXY=off GOSUMDB=off GOTOOLCHAIN=local go test -json -vet=off -count=1 -timeout 25m ./...",
  "source_commits": CHECKS["hook_commits"],
  "add_only": True
 },
 "engines": CHECKS["engines"],
 "checks": [],
 "notes": CHECKS["notes"],
 "not_applicable": CHECKS["not_applicable"],
}
for c in CHECKS["checks"]:
    pid = c["id"]
    m["checks"].append({
        "property_id": pid,
        "quick_cmd": f"./check {pid} --tier quick",
        "thorough_cmd": f"./check {pid} --tier thorough",
        "evidence_file": f"/verif/evidence/{pid}.json",
        "replay_cmd_template": f"./check {pid} --replay {{path}}",
        "engine": c["engine"],
        "level_claimed": {"category": c["level"], "text": c["text"], "design_ref": c["design_ref"]},
        "level_note": c["note"],
        "technique": c["technique"],
    })
json.dump(m, open('/verif/MANIFEST.json','w'), indent=1)
try:
    import jsonschema
    jsonschema.validate(m, json.load(open('/root/.vp/MANIFEST.schema.json')))
    print("MANIFEST.json valid;", len(m["checks"]), "checks;", len(m["not_applicable"]), "not applicable")
except ImportError:
    print("jsonschema not available; wrote MANIFEST.json unvalidated")
