#!/bin/bash
# usage: seedcheck.sh <seed-out-dir> <seed-name> <demo-target-dir-in-repo> "<go test args>" <check ids...>
# Confirms a seeded property-breaking change in a scratch worktree of /repo HEAD: the repository's
# suite passes with it, the demonstration fails with it and passes without it; then runs the named
# checks against the changed tree and records everything under /verif/seeded/<name>/.
set -u
OUT=$1; NAME=$2; DEMODIR=$3; TESTARGS=$4; shift 4
export GOFLAGS=-mod=mod GOPROXY=off GOSUMDB=off GOTOOLCHAIN=local
export VERIF_SCRATCH_EVIDENCE=/tmp/seed-evidence   # runs against a changed library never touch /verif/evidence
WT=/tmp/sv-$NAME
git -C /repo worktree remove --force $WT 2>/dev/null
git -C /repo worktree add --detach $WT -q || exit 2
DST=/verif/seeded/$NAME; mkdir -p $DST
cp $OUT/patch.diff $DST/patch.diff
for f in $OUT/demo_test.go $OUT/demo; do [ -e $f ] && cp -r $f $DST/; done
[ -f $OUT/meta.json ] && cp $OUT/meta.json $DST/agent_meta.json
cd $WT
cp $OUT/demo_test.go $DEMODIR/zz_seed_demo_test.go
without=$(go test -count=1 $TESTARGS 2>&1 | tail -1)
if ! git apply $OUT/patch.diff; then echo "PATCH DOES NOT APPLY"; git -C /repo worktree remove --force $WT; exit 2; fi
with=$(go test -count=1 $TESTARGS 2>&1 | tail -1)
rm $DEMODIR/zz_seed_demo_test.go
for attempt in 1 2 3 4; do
  suitelog=$(go test -count=1 ./... 2>&1)
  echo "$suitelog" | grep -q "address already in use" || break   # other jobs on this machine use the suite's fixed ports
  sleep 7
done
suite=$(echo "$suitelog" | grep -v "no test files" | awk '{print $1}' | sort | uniq -c | tr '\n' ' ')
echo "demo without change: $without"; echo "demo with change:    $with"; echo "suite with change:   $suite"
cd /verif
results=""
for id in "$@"; do
  log=$(VERIF_REPO=$WT ./check $id --tier quick 2>&1); code=$?
  keys=$(echo "$log" | grep -o 'key=[^ ]*' | head -5 | tr '\n' ' ')
  echo "check $id: exit=$code $keys"
  results="$results{\"check\":\"$id\",\"exit\":$code,\"keys\":\"$keys\"},"
done
python3 - "$DST" "$NAME" "$without" "$with" "$suite" "[${results%,}]" "$TESTARGS" <<'PY'
import json,sys
dst,name,without,withc,suite,results,args=sys.argv[1:8]
agent={}
try: agent=json.load(open(dst+'/agent_meta.json'))
except Exception: pass
meta={"name":name,"breaks_property":agent.get("property"),"summary":agent.get("summary"),"needs":agent.get("needs"),
 "confirmed":{"demo_cmd":"go test -count=1 "+args,"demo_without_change":without,"demo_with_change":withc,"repo_suite_with_change":suite},
 "checks_run":json.loads(results)}
json.dump(meta,open(dst+'/meta.json','w'),indent=1)
PY
git -C /repo worktree remove --force $WT
(cd /verif && ./check "$1" --tier quick >/dev/null 2>&1) # restore clean evidence for the first check
