#!/bin/bash
# Builds everything the checks need from files on disk only, and pre-warms the Go build cache.
set -e
cd /verif
export GOFLAGS=-mod=mod GOPROXY=off GOSUMDB=off GOTOOLCHAIN=local GOCACHE=/verif/.cache/go-build
mkdir -p .cache/go-build .work bin evidence replays
rm -rf .work/*
go build -tags 'verif verifcard' ./vk/... ./spec/... ./harness/... 2>&1 | tail -20
# pre-build the -race runtime (used by the free-running race pass) and the E1 overlay build
if [ -d mc/rewrite ]; then go build -o bin/rewrite ./mc/rewrite; fi
for d in harness/*/race; do [ -d "$d" ] && go build -race -tags verif -o /dev/null "./$d"; done
echo setup done
