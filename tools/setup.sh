#!/bin/bash
# Builds everything the checks need from files on disk only (offline) and pre-warms the Go build
# cache: every registered harness is built once exactly the way ./check builds it (plain, -race
# and engine-E1 overlay variants), so the first real check run only relinks.
set -u
cd /verif
export GOFLAGS=-mod=mod GOPROXY=off GOSUMDB=off GOTOOLCHAIN=local GOCACHE=/verif/.cache/go-build
mkdir -p .cache/go-build .work bin evidence replays
rm -rf .work/* 2>/dev/null
chmod +x check tools/*.sh tools/*.py 2>/dev/null
fail=0
for id in $(python3 -c "import json; print(' '.join(c['id'] for c in json.load(open('/verif/tools/checks.json'))['checks']))"); do
  if VERIF_BUILD_ONLY=1 ./check "$id" > .work/setup.$id.log 2>&1; then
    echo "built $id"
  else
    echo "FAILED to build $id:"; cat .work/setup.$id.log; fail=1
  fi
done
# engine E1 litmus tests (scheduler, explorer, race detector): reported, never fatal for setup
if ./check e1self > .work/setup.e1self.log 2>&1; then echo "engine E1 self-test: $(tail -1 .work/setup.e1self.log)"; else echo "WARNING: engine E1 self-test failed:"; cat .work/setup.e1self.log; fi
rm -f .work/setup.*.log
[ $fail = 0 ] && echo "setup done" || { echo "setup incomplete"; exit 1; }
