// Filters a list of candidate zone names (stdin) down to the ones time.LoadLocation accepts.
package main

import (
	"bufio"
	"fmt"
	"os"
	"time"
	_ "time/tzdata"
)

func main() {
	sc := bufio.NewScanner(os.Stdin)
	for sc.Scan() {
		if _, err := time.LoadLocation(sc.Text()); err == nil {
			fmt.Println(sc.Text())
		}
	}
}
