#!/bin/bash
# usage: seedrerun.sh <seed-name> <check ids...>   — re-runs checks against an already recorded seeded change
# (after a check was strengthened) and appends the outcome to its meta.json as "checks_rerun".
set -u
NAME=$1; shift
export GOFLAGS=-mod=mod GOPROXY=off GOSUMDB=off GOTOOLCHAIN=local
export VERIF_SCRATCH_EVIDENCE=/tmp/seed-evidence   # runs against a changed library never touch /verif/evidence
WT=/tmp/sr-$NAME
git -C /repo worktree remove --force $WT 2>/dev/null
git -C /repo worktree add --detach $WT -q || exit 2
if ! git -C $WT apply /verif/seeded/$NAME/patch.diff 2>/dev/null; then
  # written against an earlier /repo HEAD (before a later fix: commit touched the same lines)
  ok=""
  for base in 527b99c 6c0073a; do   # earlier /repo HEADs (before later fix: commits touched the same lines)
    if git -C $WT checkout -q --detach $base && git -C $WT apply /verif/seeded/$NAME/patch.diff 2>/dev/null; then ok=$base; break; fi
    git -C $WT checkout -q -- . 2>/dev/null
  done
  [ -n "$ok" ] || { echo "PATCH DOES NOT APPLY"; git -C /repo worktree remove --force $WT; exit 2; }
  echo "(patch applied to $ok, the /repo HEAD it was written against)"
fi
cd /verif
TIER=${SEED_TIER:-quick}
for id in "$@"; do
  log=$(VERIF_REPO=$WT ./check $id --tier $TIER 2>&1); code=$?
  keys=$(echo "$log" | grep -o 'key=[^ ]*' | sort -u | head -6 | tr '\n' ' ')
  echo "check $id ($TIER): exit=$code $keys"
  python3 - "$NAME" "$id" "$code" "$keys" "$TIER" <<'PY'
import json,sys
name,cid,code,keys,tier=sys.argv[1:6]
p='/verif/seeded/%s/meta.json'%name
m=json.load(open(p)); m.setdefault('checks_rerun',[])
m['checks_rerun']=[x for x in m['checks_rerun'] if not (x['check']==cid and x.get('tier')==tier)]
m['checks_rerun'].append({"check":cid,"tier":tier,"exit":int(code),"keys":keys})
json.dump(m,open(p,'w'),indent=1)
PY
done
git -C /repo worktree remove --force $WT
