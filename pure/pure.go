// Package pure: one pass over the library's network-free entry points (used by C08's E1 scenario and
// by its free-running -race pass).
package pure

import (
	"encoding/json"
	"fmt"
	"net/netip"
	"time"

	codec "github.com/uhppoted/uhppote-core/encoding/UTO311-L0x"
	"github.com/uhppoted/uhppote-core/encoding/bcd"
	"github.com/uhppoted/uhppote-core/messages"
	"github.com/uhppoted/uhppote-core/types"
	"verif/ops"
	"verif/spec"
)

// Workload runs the library's network-free entry points once: text and JSON parsers and
// formatters of the public types, BCD coding, the message codec and dispatchers. "No data race occurs
// anywhere in the library" covers them as well: two goroutines that use them for the first time in
// the process at the same moment must not meet in unsynchronised package-level state (lazily built
// tables, memo caches). Returns a digest of what was computed so that the two threads can be
// compared with each other.
func Workload() string {
	out := ""
	add := func(v any, err error) { out += fmt.Sprintf("%v|%v;", v, err) }
	roundtrip := func(v any, into any) {
		b, err := json.Marshal(v)
		if err == nil {
			err = json.Unmarshal(b, into)
		}
		add(string(b), err)
	}

	d, err := types.ParseDate("2024-02-29")
	add(d, err)
	add(types.ToDate(2024, time.December, 31).String(), nil)
	h, err := types.HHmmFromString("08:30")
	add(h, err)
	add(types.HHmmFromTime(time.Date(2024, 1, 1, 12, 34, 0, 0, time.UTC)), nil)
	st, err := types.TimeFromString("12:34:56")
	add(st, err)
	cf, err := types.CardFormatFromString("Wiegand-26")
	add(cf, err)
	for _, name := range []string{"CONTROL DOOR", "TRIGGER ONCE", "ENABLE PUSHBUTTON", "3", "13"} {
		var tt types.TaskType
		_, err := tt.UnmarshalTSV(name)
		add(tt, err)
	}
	for _, js := range []string{`"UNLOCK DOOR"`, `"ENABLE TIME PROFILE"`, `7`} {
		var tt types.TaskType
		add(tt, json.Unmarshal([]byte(js), &tt))
		add(tt.String(), nil)
	}
	ba, err := types.ParseBindAddr("192.168.1.100:54321")
	add(ba, err)
	bc, err := types.ParseBroadcastAddr("192.168.1.255")
	add(bc, err)
	la, err := types.ParseListenAddr("0.0.0.0:60001")
	add(la, err)
	ca, err := types.ParseControllerAddr("192.168.1.100")
	add(ca, err)

	from, to := types.ToDate(2024, 1, 1), types.ToDate(2024, 12, 31)
	card := types.Card{CardNumber: 8165538, From: from, To: to, Doors: map[uint8]uint8{1: 1, 2: 0, 3: 29, 4: 1}, PIN: 7531}
	roundtrip(card, &types.Card{})
	add(card.String(), nil)
	profile := types.TimeProfile{ID: 29, LinkedProfileID: 3, From: from, To: to,
		Weekdays: types.Weekdays{time.Monday: true, time.Friday: true},
		Segments: types.Segments{1: {Start: types.NewHHmm(8, 30), End: types.NewHHmm(9, 45)}, 2: {}, 3: {}}}
	roundtrip(profile, &types.TimeProfile{})
	add(profile.String(), nil)
	task := types.Task{Task: types.EnableMoreCards, Door: 3, From: from, To: to, Weekdays: types.Weekdays{time.Tuesday: true}, Start: types.NewHHmm(7, 15), Cards: 2}
	roundtrip(task, &types.Task{})
	add(task.String(), nil)
	roundtrip(types.DateTime(time.Date(2024, 6, 15, 12, 34, 56, 0, time.UTC)), new(types.DateTime))
	roundtrip(types.NewHHmm(23, 59), new(types.HHmm))
	roundtrip(types.PIN(123456), new(types.PIN))
	roundtrip(types.Controlled, new(types.ControlState))
	roundtrip(types.Version(0x0892), new(types.Version))
	roundtrip(ba, new(types.BindAddr))
	roundtrip(bc, new(types.BroadcastAddr))
	roundtrip(la, new(types.ListenAddr))
	roundtrip(ca, new(types.ControllerAddr))
	roundtrip(types.ControllerAddrFrom(netip.MustParseAddr("10.0.0.1"), 60000), new(types.ControllerAddr))

	s, err := bcd.Encode("20240229")
	add(s, err)
	ds, err := bcd.Decode([]byte{0x20, 0x24, 0x02, 0x29, 0x12, 0x34, 0x56})
	add(ds, err)

	// the codec and the dispatchers: every operation's baseline request and reply
	for i := range spec.Ops {
		op := &spec.Ops[i]
		req := spec.EncodeRequest(op, 405419896, ops.Baseline(op))
		m, err := messages.UnmarshalRequest(req)
		add(fmt.Sprintf("%T", m), err)
		if err == nil {
			b, err := codec.Marshal(m)
			add(fmt.Sprintf("%x", b), err)
		}
		if !op.NoReply {
			reply := spec.EncodeReply(op, 405419896, ops.BaselineReply(op))
			r, err := messages.UnmarshalResponse(reply)
			add(fmt.Sprintf("%+v", r), err)
		}
	}
	return out
}
